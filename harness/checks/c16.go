package checks

import (
	"bytes"
	"context"
	"encoding/json"
	"errors"
	"fmt"
	"os"
	"os/exec"
	"path/filepath"
	"regexp"
	"sort"
	"strings"
	"time"

	"github.com/indexsupply/shovel/shovel"
	"github.com/indexsupply/shovel/shovel/config"
	"github.com/indexsupply/shovel/wpg"

	"verif/harness/fakepg"
	"verif/harness/gen"
	"verif/harness/model"
	"verif/harness/refmodel"
	"verif/harness/scen"
	"verif/harness/simnode"
	"verif/harness/vk"
)

// C16 — the generated schema fits the data: required columns, shared-table
// union, unique key. After ValidateFix+Migrate on the fake Postgres: every COPY
// of a first indexing pass succeeds; no two different rows collide on the
// unique key; inserting the same blocks again collides; configurations whose
// selected input / block field / notification column has no table column are
// rejected by validation.

func init() {
	vk.Register(&vk.Check{
		ID:        "C16",
		Level:     "exploration",
		Technique: "behavioural schema check on a fake Postgres with real identifier, type and NULL-distinct unique-index semantics: generated integration sets are validated, migrated and indexed; the first pass must insert everything, a second insert of the same blocks (positions removed through SQL) must fail with 23505; the printed schema (config.DDL) is applied to a second server and must hold every written column; columns are removed from otherwise valid configurations and validation must reject them",
		Rule: "case kinds by index: single integration (log/tx/trace, arrays giving several rows per log, several matching logs and traces per transaction, one or two sources, default / user-named identity fields / identity columns declared in table.columns without a block entry (each identity column × each shape) / user-supplied unique key, extra columns, notifications); 2–3 integrations sharing a table with different shapes and orders (and a same-shape control); column removal / ghost notification column; tables existing before boot with fewer columns (created by SQL, or by an earlier, smaller configuration of the same integration); reserved-word column names and (one case in four of that kind) mixed-case names. " +
			"signature = (kind, modes, identity variant, array rows, outcome classes); trivial = no row written in the first pass. Half of the chains end trace_block with reward traces; a quarter of the existing-table scenarios use a table name longer than 63 bytes.",
		Assumptions: []string{
			"fakepg implements PostgreSQL identifier folding/quoting, type names, ADD COLUMN IF NOT EXISTS and unique indexes with NULLs distinct; CREATE INDEX IF NOT EXISTS with an existing name is skipped BEFORE its column list is checked (real PostgreSQL checks the columns first and would fail the migration where a key column does not exist yet: the more permissive reading is simulated)",
			"every row an integration emits comes from a different (block, transaction, log, array element / trace) item, so any 23505 in a first pass over an empty database is a collision between two different rows",
			"'re-insert collides' is judged only for the generated key: integrations with a user-supplied unique list are checked for successful inserts only",
			"a removed column that ValidateFix adds again by itself (ig_name, src_name, block_num, tx_idx, log_idx, abi_idx, trace_action_idx) still has a matching table column: accepting such a configuration is not a violation",
			"shared tables never give one column name two types (that is a contradictory configuration, not a schema-generation question)",
			"reference lookups that fail on reserved-word column names are outside the statement: recorded under beyond_statement, not a verdict",
			"reserved words are used for column names only (table names are spliced unquoted everywhere)",
		},
		NCases: func(tier string) int {
			if tier == "thorough" {
				return 8000
			}
			return 960
		},
		Run:              c16Run,
		CrashIsViolation: true,
		CaseTimeoutS:     180,
		MinObs: func(tier string) map[string]int64 {
			return map[string]int64{"scenarios": 700, "first_pass_rows": 15000, "reinsert_attempts": 500, "reinsert_collided": 300, "array_row_logs": 100,
				"identity_columns_checked": 2000, "declared_only_scenarios": 100, "validation_removals": 300, "validation_rejected": 200, "shared_table_scenarios": 150, "print_schema_checked": 600, "existing_table_scenarios": 150, "existing_table_migrated": 40, "special_name_scenarios": 80}
		},
	})
}

var c16ABI = gen.ABIOpts{MaxDepth: 2, MaxLeaves: 30, DynLen: 3, MaxInputs: 3, Ks: []int{1, 2, 3, 5}, MaxIndexed: 2}

var c16AutoType = map[string]string{"ig_name": "text", "src_name": "text", "block_num": "numeric", "tx_idx": "int", "log_idx": "int", "abi_idx": "int2", "trace_action_idx": "int2"}

// c16Auto: the identity columns ValidateFix is documented to add for d.
func c16Auto(d *model.Decl) []string {
	res := []string{"ig_name", "src_name", "block_num", "tx_idx"}
	if d.HasEvent() {
		res = append(res, "log_idx")
	}
	if len(refmodel.SelectedLeaves(d.Inputs)) > 0 {
		res = append(res, "abi_idx")
	}
	for _, b := range d.Block {
		if strings.HasPrefix(b.Name, "trace_") {
			res = append(res, "trace_action_idx")
			break
		}
	}
	return res
}

// renameEventColumns gives every selected event column a per-integration name.
func renameEventColumns(fs []refmodel.Field, prefix string) {
	for i := range fs {
		if fs[i].Column != "" {
			fs[i].Column = prefix + fs[i].Column
		}
		t := &fs[i].Type
		for t.IsArray() {
			t = t.Elem
		}
		if len(t.Fields) > 0 {
			renameEventColumns(t.Fields, prefix)
		}
	}
}

func eventColumns(fs []refmodel.Field, top bool, out *[]*refmodel.Field, nested *[]bool) {
	for i := range fs {
		if fs[i].Column != "" {
			*out = append(*out, &fs[i])
			*nested = append(*nested, !top)
		}
		t := &fs[i].Type
		for t.IsArray() {
			t = t.Elem
		}
		if len(t.Fields) > 0 {
			eventColumns(t.Fields, false, out, nested)
		}
	}
}

type c16Opts struct {
	kind      string
	mode      int
	identity  string // default | user-named | no-renamed-binding | declared-only
	declare   int    // declared-only: rotation index of the identity column that is certainly declared
	userUniq  bool
	arrays    bool
	notify    bool
	extraCols bool
	// wantIndexed / wantArray: redraw (a few times) until the event has a selected
	// indexed input / a selected leaf under an array
	wantIndexed bool
	wantArray   bool
	// allIndexed: the event has indexed inputs only (its logs carry no data)
	allIndexed bool
}

// c16Decl draws one integration of the C16 space.
func c16Decl(r *vk.RNG, k int, table string, srcs []string, o c16Opts) *model.Decl {
	abi := c16ABI
	if o.arrays {
		abi.MinDynLen = 2
	}
	var d *model.Decl
	for try := 0; try < 12; try++ {
		d = gen.Decl(r, gen.DeclOpts{Mode: o.mode, Name: namePoolIG[k], Table: table, Src: srcs[0], Start: 1, ABI: abi, SelIndexed: o.wantIndexed || r.Bool(), MaxFields: 4})
		if d.Mode() != model.ModeLog {
			break
		}
		okI, okA := !o.wantIndexed, !o.wantArray
		for _, f := range d.Inputs {
			if f.Indexed && f.Column != "" {
				okI = true
			}
		}
		for _, l := range refmodel.SelectedLeaves(d.Inputs) {
			if l.ArrayDepth > 0 {
				okA = true
			}
		}
		if okI && okA {
			break
		}
	}
	if o.allIndexed && d.Mode() == model.ModeLog {
		// e.g. ERC-721 Transfer(address indexed, address indexed, uint256 indexed): logs without data
		n := r.Range(1, 3)
		types := []refmodel.Type{refmodel.Address(), refmodel.Uint(256), refmodel.BytesN(32), refmodel.Uint(64)}
		var ins []refmodel.Field
		for i := 0; i < n; i++ {
			f := refmodel.Field{Name: fmt.Sprintf("p%d", i), Type: vk.Pick(r, types), Indexed: true}
			if i == 0 || r.Bool() {
				f.Column = fmt.Sprintf("p%d", i)
			}
			ins = append(ins, f)
		}
		d.Inputs = ins
	}
	for _, s := range srcs[1:] {
		d.Sources = append(d.Sources, model.SrcRef{Name: s, Start: 1})
	}
	renameEventColumns(d.Inputs, fmt.Sprintf("e%d_", k))
	if o.identity == "user-named" {
		// the user names the identity fields and columns himself, in his own order and with his own (compatible) types
		have := map[string]bool{}
		for _, b := range d.Block {
			have[b.Name] = true
		}
		ids := c16Auto(d)
		vk.Shuffle(r, ids)
		for _, n := range ids {
			if n == "abi_idx" || have[n] || r.Chance(1, 4) {
				continue
			}
			ty := c16AutoType[n]
			if (n == "tx_idx" || n == "log_idx" || n == "trace_action_idx") && r.Bool() {
				ty = "numeric"
			}
			d.Block = append(d.Block, model.BlockField{Name: n, Column: n, ColType: ty})
		}
		vk.Shuffle(r, d.Block)
	}
	if o.identity == "no-renamed-binding" || o.identity == "user-named" {
		// identity fields keep their own column names
		for i := range d.Block {
			if _, ok := c16AutoType[d.Block[i].Name]; ok {
				d.Block[i].Column = d.Block[i].Name
			}
		}
	}
	if o.identity == "declared-only" {
		// identity columns listed in table.columns WITHOUT a block entry: ValidateFix
		// must still select the field (otherwise the column is never written)
		ids := c16Auto(d)
		sel := map[string]bool{}
		for _, b := range d.Block {
			sel[b.Name] = true
		}
		must := ids[o.declare%len(ids)]
		for _, n := range ids {
			if sel[n] || (n != must && !r.Chance(1, 3)) {
				continue
			}
			d.ExtraCols = append(d.ExtraCols, model.Column{Name: n, Type: c16AutoType[n]})
		}
	}
	if o.userUniq {
		// the user's own key names the columns the identity fields are stored in
		key := c16Auto(d)
		for i, id := range key {
			for _, b := range d.Block {
				if b.Name == id {
					key[i] = b.Column
				}
			}
		}
		vk.Shuffle(r, key)
		d.Unique = [][]string{key}
	}
	if o.extraCols {
		d.ExtraCols = []model.Column{{Name: "note_" + fmt.Sprint(k), Type: "text"}}
	}
	if o.notify {
		ws := d.WrittenColumns()
		vk.Shuffle(r, ws)
		n := r.Range(1, 2)
		if n > len(ws) {
			n = len(ws)
		}
		d.Notify = append([]string(nil), ws[:n]...)
	}
	return d
}

type c16Scen struct {
	c      *vk.Case
	kind   string
	decls  []*model.Decl
	spec   *scen.Spec
	chain  *simnode.Chain
	env    *scen.Env
	detail map[string]any
	shared bool
	// userUnique[ig]
	special string
	// emptyData: the chain holds logs of the declared event without data; refusing the batch is one legitimate
	// answer (nothing is stored), storing rows is the other (then the key rules apply to them)
	emptyData bool
	// columnless: the declaration names an identity field under block without giving it a column (only a filter)
	columnless bool
}

func c16Chain(r *vk.RNG, decls []*model.Decl, abi gen.ABIOpts, emptyData bool) *simnode.Chain {
	addrs := [][]byte{r.Bytes(20), r.Bytes(20)}
	co := gen.ChainOpts{Seed: r.U64(), MinTxs: 2, MaxTxs: 3, MaxLogs: 4, MinTraces: 2, MaxTraces: 3}
	if r.Bool() {
		co.Rewards = 2 // trace_block ends with reward traces that name no transaction (seen only by trace shapes)
	}
	for _, d := range decls {
		if d.Mode() == model.ModeLog {
			t := gen.TargetMaker(d, addrs, abi)
			co.Makers = append(co.Makers, t, t, t)
			if emptyData {
				// a log of the declared event (same first topic, same number of topics) that carries no data
				co.Makers = append(co.Makers, func(r *vk.RNG) simnode.Log {
					l := t(r)
					l.Data = nil
					return l
				})
			}
		}
	}
	if len(co.Makers) > 0 {
		for _, d := range decls {
			if d.Mode() == model.ModeLog {
				co.Makers = append(co.Makers, gen.DecoyMakers(d, addrs, abi)[0])
				break
			}
		}
	}
	ch := simnode.NewChain(nextChainID(), gen.Content(co))
	ch.Grow(5)
	return ch
}

func c16Spec(r *vk.RNG, decls []*model.Decl, srcs []string, ch *simnode.Chain) *scen.Spec {
	sp := &scen.Spec{Decls: decls}
	for i, s := range srcs {
		sp.Sources = append(sp.Sources, scen.SourceSpec{Name: s, ChainID: uint64(3 + i), Batch: r.Range(2, 4), Concurrency: r.Range(1, 2), Poll: "1h", Node: simnode.Global().NewNode(ch)})
	}
	return sp
}

var sqlstateRe = regexp.MustCompile(`SQLSTATE ([0-9A-Z]{5})`)

func sqlstate(err string) string {
	if m := sqlstateRe.FindStringSubmatch(err); m != nil {
		return m[1]
	}
	return ""
}

func pairRowCount(pg *fakepg.Server, table, src, ig string) (n int, t *fakepg.Table) {
	pg.Read(func() {
		t = pg.TableByName("public." + table)
		if t == nil {
			return
		}
		for _, r := range pg.CommittedRows("public." + table) {
			if s, g := rowOwner(t, r); s == src && g == ig {
				n++
			}
		}
	})
	return
}

// uniqueKeys lists the column-name sets of the table's unique indexes.
func uniqueKeys(pg *fakepg.Server, table string) (keys [][]string) {
	pg.Read(func() {
		t := pg.TableByName("public." + table)
		if t == nil {
			return
		}
		for _, ix := range t.Indexes {
			if !ix.Unique {
				continue
			}
			var k []string
			for _, ci := range ix.Cols {
				k = append(k, t.Cols[ci].Name)
			}
			keys = append(keys, k)
		}
	})
	return
}

func sameSet(a, b []string) bool {
	if len(a) != len(b) {
		return false
	}
	x := append([]string(nil), a...)
	y := append([]string(nil), b...)
	sort.Strings(x)
	sort.Strings(y)
	for i := range x {
		if x[i] != y[i] {
			return false
		}
	}
	return true
}

// nullKeyColumns: columns of a unique key that are NULL in every row of the pair.
func nullKeyColumns(pg *fakepg.Server, table, src, ig string, key []string) (res []string) {
	pg.Read(func() {
		t := pg.TableByName("public." + table)
		if t == nil {
			return
		}
		for _, col := range key {
			ci := t.ColIdx(col)
			if ci < 0 {
				continue
			}
			n, nulls := 0, 0
			for _, r := range pg.CommittedRows("public." + table) {
				if s, g := rowOwner(t, r); s == src && g == ig {
					n++
					if r.Vals[ci] == nil {
						nulls++
					}
				}
			}
			// one NULL in a key column is enough: that row never collides with its own re-insert
			if n > 0 && nulls > 0 {
				res = append(res, col)
			}
		}
	})
	return
}

// generatedKey returns the unique key ValidateFix produced for the integration.
func generatedKey(conf config.Root, ig string) []string {
	for _, g := range conf.Integrations {
		if g.Name == ig && len(g.Table.Unique) > 0 {
			return g.Table.Unique[0]
		}
	}
	return nil
}

func hasMixedCase(d *model.Decl) bool {
	for _, c := range d.TableColumns() {
		if c.Name != strings.ToLower(c.Name) {
			return true
		}
	}
	return d.Table != strings.ToLower(d.Table)
}

// cause names the root cause of a key problem of (table, integration).
func (s *c16Scen) keyCause(d *model.Decl, src string) (string, map[string]any) {
	pg := s.env.PG
	keys := uniqueKeys(pg, d.Table)
	want := generatedKey(s.env.Conf, d.Name)
	info := map[string]any{"unique_indexes_of_table": keys, "key_generated_for_integration": want, "integration": d.Name}
	if len(keys) == 0 {
		return "no-unique-index", info
	}
	match := false
	for _, k := range keys {
		if sameSet(k, want) {
			match = true
		}
	}
	if !match {
		if s.kind == "existing-upgrade" {
			return "existing-table:unique-key-not-extended", info
		}
		if s.shared {
			return "shared-table:later-shape-without-unique-key", info
		}
		return "table-key-differs-from-generated-key", info
	}
	if nk := nullKeyColumns(pg, d.Table, src, d.Name, want); len(nk) > 0 {
		info["key_columns_always_null"] = nk
		return "null-in-key-column", info
	}
	return "", info
}

// lacks: identity columns the integration's shape needs that no unique index holds.
func (s *c16Scen) lacks(d *model.Decl) []string {
	keys := uniqueKeys(s.env.PG, d.Table)
	var res []string
	for _, n := range c16Auto(d) {
		found := false
		for _, k := range keys {
			for _, c := range k {
				if c == n {
					found = true
				}
			}
		}
		if !found {
			res = append(res, n)
		}
	}
	return res
}

// declaredLacking: identity columns the user declared in table.columns (without a
// block entry) that no unique index of the table holds and whose field the fixed
// configuration does not select either.
func (s *c16Scen) declaredLacking(d *model.Decl, lacking []string) (res []string) {
	selected := map[string]bool{}
	for _, g := range s.env.Conf.Integrations {
		if g.Name == d.Name {
			for _, bd := range g.Block {
				selected[bd.Name] = true
			}
		}
	}
	for _, n := range lacking {
		for _, ec := range d.ExtraCols {
			if ec.Name == n && !selected[n] {
				res = append(res, n)
			}
		}
	}
	return
}

func (s *c16Scen) violate(key string, extra map[string]any, format string, args ...any) {
	s.c.Violate(key, merge(s.detail, extra), format, args...)
}

// firstPass steps every task to the head; returns pairs that completed.
func (s *c16Scen) firstPass() (done map[string]bool) {
	done = map[string]bool{}
	head := s.chain.Head().Num
	c := s.c
	for round := 0; round < 2; round++ {
		for _, t := range s.env.Tasks {
			in := t.VerifInfo()
			name := in.SrcName + "/" + in.IGName
			if done[name] {
				continue
			}
			d := s.spec.Decl(in.IGName)
			idle, hard := 0, 0
			for k := 0; k < 14 && idle <= 7 && hard == 0; k++ {
				if p, has := c15Position(s.env.PG, in.SrcName, in.IGName); has && p >= head {
					done[name] = true
					break
				}
				res := s.env.Step(t)
				c.Obs("steps", 1)
				switch {
				case res.Panic != "":
					fr := vk.TopShovelFrame(res.Panic)
					s.violate("panic:"+fr, map[string]any{"panic": firstLines(res.Panic, 25)}, "Converge panicked in %s", fr)
					hard++
				case res.Err == nil:
				case errors.Is(res.Err, shovel.ErrNothingNew):
					idle++
				default:
					hard++
					es := res.Err.Error()
					st := sqlstate(es)
					ex := map[string]any{"pair": name, "error": firstLines(es, 3), "mode": d.Mode().String()}
					switch {
					case s.emptyData && strings.Contains(es, "un-indexed data"):
						c.Obs("empty_data_logs_refused", 1)
					case strings.Contains(es, "filter using reference"):
						c.Seen("beyond_statement", "reference lookup fails: "+st)
					case st == "23505":
						cause, info := s.keyCause(d, in.SrcName)
						lk := s.lacks(d)
						switch {
						case len(d.Unique) > 0:
							c.Seen("user_unique_collisions", strings.Join(d.Unique[0], ","))
						case strings.HasPrefix(cause, "shared-table") || strings.HasPrefix(cause, "existing-table"):
							s.violate(cause, merge(ex, merge(info, map[string]any{"consequence": "two different rows of the first pass collide (23505): the integration can never index"})),
								"%s: different rows of %s collide on the table's unique key %v (its own key would be %v)", cause, name, info["unique_indexes_of_table"], info["key_generated_for_integration"])
						case len(s.declaredLacking(d, lk)) > 0:
							for _, col := range s.declaredLacking(d, lk) {
								s.violate("identity-column-declared-but-never-written:"+col, merge(ex, merge(info, map[string]any{"consequence": "the declared column is not part of the generated key: two different rows of the first pass collide (23505)"})),
									"identity column %s is declared in table.columns (no block entry); ValidateFix neither selects the field nor keys on it: rows of %s collide on %v", col, name, info["unique_indexes_of_table"])
							}
						default:
							s.violate("distinct-rows-collide:key-lacks="+strings.Join(lk, "+"), merge(ex, info),
								"two different rows of the first pass of %s (%s) collide on the generated unique key %v", name, d.Mode(), info["unique_indexes_of_table"])
						}
					case st == "42703" || st == "42P01" || st == "42804" || st == "22P02" || st == "42601" || st == "22021" || strings.Contains(es, "unable to encode"):
						switch {
						case hasMixedCase(d):
							s.violate("ddl-copy-case-mismatch", ex, "insert of %s fails (%s): the table was created with unquoted (folded) names, COPY quotes them: %s", name, st, firstLines(es, 1))
						default:
							s.violate("first-pass-insert-fails:"+st+":"+d.Mode().String(), ex, "insert of %s fails although validation and migration accepted the configuration: %s", name, firstLines(es, 1))
						}
					default:
						c.Inconclusive("first pass of %s: %v", name, firstLines(es, 2))
					}
				}
			}
		}
	}
	return done
}

// identityWritten: every identity column the shape needs holds a value in the
// rows of the integration ("the identity columns needed to tell rows apart are
// added automatically" — a column that exists but is never written tells nothing apart).
func (s *c16Scen) identityWritten() {
	for _, t := range s.env.Tasks {
		in := t.VerifInfo()
		d := s.spec.Decl(in.IGName)
		n, _ := pairRowCount(s.env.PG, d.Table, in.SrcName, in.IGName)
		if n == 0 {
			continue
		}
		declared := map[string]bool{}
		for _, c := range d.ExtraCols {
			declared[c.Name] = true
		}
		var cols []string
		bound := map[string]string{}
		for _, id := range c16Auto(d) {
			col := id
			for _, b := range d.Block {
				if b.Name == id {
					col = b.Column
				}
			}
			cols = append(cols, col)
			bound[col] = id
		}
		s.c.Obs("identity_columns_checked", int64(len(cols)))
		for _, col := range nullKeyColumns(s.env.PG, d.Table, in.SrcName, in.IGName, cols) {
			id := bound[col]
			ex := map[string]any{"pair": in.SrcName + "/" + in.IGName, "mode": d.Mode().String(), "column": col, "identity_field": id, "rows": n,
				"unique_indexes_of_table": uniqueKeys(s.env.PG, d.Table), "declared_in_table_columns_without_block_entry": declared[id]}
			if declared[id] {
				s.violate("identity-column-declared-but-never-written:"+id, ex, "identity column %s of %s is declared in table.columns (no block entry) and stays NULL in all %d rows of %s: the field is never selected", col, d.Table, n, in.IGName)
			} else {
				s.violate("identity-column-never-written:"+id, ex, "identity column %s of %s stays NULL in all %d rows of %s", col, d.Table, n, in.IGName)
			}
		}
	}
}

// reinsert removes the pair's positions and runs the step again: it must fail with 23505.
func (s *c16Scen) reinsert(t *shovel.Task) {
	c := s.c
	in := t.VerifInfo()
	name := in.SrcName + "/" + in.IGName
	d := s.spec.Decl(in.IGName)
	before, _ := pairRowCount(s.env.PG, d.Table, in.SrcName, in.IGName)
	if before == 0 {
		c.Obs("reinsert_trivial", 1)
		return
	}
	if len(d.Unique) > 0 {
		c.Obs("reinsert_skipped_user_unique", 1)
		return
	}
	if _, err := s.env.Pool.Exec(context.Background(), "delete from shovel.task_updates where src_name = $1 and ig_name = $2", in.SrcName, in.IGName); err != nil {
		c.Inconclusive("deleting positions: %v", err)
		return
	}
	c.Obs("reinsert_attempts", 1)
	head := s.chain.Head().Num
	for k := 0; k < 10; k++ {
		res := s.env.Step(t)
		if res.Panic != "" {
			s.violate("panic:"+vk.TopShovelFrame(res.Panic), map[string]any{"panic": firstLines(res.Panic, 25)}, "Converge panicked during re-insert")
			return
		}
		if res.Err != nil {
			if errors.Is(res.Err, shovel.ErrNothingNew) {
				continue
			}
			if sqlstate(res.Err.Error()) == "23505" {
				c.Obs("reinsert_collided", 1)
				return
			}
			c.Inconclusive("re-insert of %s: %v", name, firstLines(res.Err.Error(), 2))
			return
		}
		after, _ := pairRowCount(s.env.PG, d.Table, in.SrcName, in.IGName)
		if after > before {
			cause, info := s.keyCause(d, in.SrcName)
			ex := merge(info, map[string]any{"pair": name, "mode": d.Mode().String(), "rows_before": before, "rows_after": after,
				"consequence": "inserting the same blocks again succeeded: the table now holds duplicates"})
			switch {
			case strings.HasPrefix(cause, "shared-table") || strings.HasPrefix(cause, "existing-table"):
				s.violate(cause, ex, "%s: re-inserting blocks of %s does not collide: table key %v, own key %v", cause, name, info["unique_indexes_of_table"], info["key_generated_for_integration"])
			case cause == "null-in-key-column":
				s.violate("reinsert-does-not-collide:null-in-key-column", ex, "re-inserting blocks of %s does not collide: key column(s) %v of %v are NULL in every row of the integration", name, info["key_columns_always_null"], info["key_generated_for_integration"])
			case cause != "":
				s.violate("reinsert-does-not-collide:"+cause, ex, "re-inserting blocks of %s does not collide (%s)", name, cause)
			default:
				s.violate("reinsert-does-not-collide:"+d.Mode().String(), ex, "re-inserting blocks of %s does not collide", name)
			}
			return
		}
		if p, has := c15Position(s.env.PG, in.SrcName, in.IGName); has && p >= head {
			break
		}
	}
	c.Obs("reinsert_trivial", 1)
}

// printSchema applies config.DDL(conf) to a fresh server and checks that every
// column an integration writes exists under the name COPY will use.
func (s *c16Scen) printSchema() {
	c := s.c
	var stmts []string
	func() {
		defer func() {
			if r := recover(); r != nil {
				s.violate("panic:config.DDL", map[string]any{"panic": fmt.Sprint(r)}, "config.DDL panicked: %v", r)
			}
		}()
		stmts = config.DDL(s.env.Conf)
	}()
	c.Obs("print_schema_checked", 1)
	s.schemaVerdict(stmts, "")
	// what the real binary prints for `-print-schema` (shared-table scenarios: that is where the command line's own
	// handling of the table set can differ from the configuration package's)
	if !s.shared || len(c.Res.Violations) > 0 {
		return
	}
	bin := shovelBinary()
	if _, err := os.Stat(bin); err != nil {
		c.Obs("print_schema_binary_not_built", 1)
		return
	}
	dir, err := os.MkdirTemp("", "vc16bin")
	if err != nil {
		return
	}
	defer os.RemoveAll(dir)
	cfile := filepath.Join(dir, "config.json")
	if err := os.WriteFile(cfile, s.env.ConfJSON, 0o644); err != nil {
		return
	}
	ctx, cancel := context.WithTimeout(context.Background(), 60*time.Second)
	defer cancel()
	cmd := exec.CommandContext(ctx, bin, "-config", cfile, "-print-schema")
	cmd.Dir = dir
	var out, errb bytes.Buffer
	cmd.Stdout, cmd.Stderr = &out, &errb
	if err := cmd.Run(); err != nil {
		if ctx.Err() != nil {
			c.Inconclusive("shovel -print-schema did not finish within 60 s")
			return
		}
		s.violate("print-schema:binary-fails", map[string]any{"error": err.Error(), "output": tail(out.String()+errb.String(), 600)}, "shovel -print-schema failed on an accepted configuration: %v", err)
		return
	}
	var printed []string
	for _, st := range strings.Split(out.String(), ";") {
		if st = strings.TrimSpace(st); st != "" {
			printed = append(printed, strings.Join(strings.Fields(st), " "))
		}
	}
	c.Obs("print_schema_binary_checked", 1)
	s.schemaVerdict(printed, "binary:")
}

// schemaVerdict executes a printed schema on an empty database: every table exists with every column its
// integrations write.
func (s *c16Scen) schemaVerdict(stmts []string, kp string) {
	c := s.c
	pg, err := fakepg.New()
	if err != nil {
		c.Inconclusive("second server: %v", err)
		return
	}
	defer pg.Close()
	pool, err := wpg.NewPool(context.Background(), pg.URL())
	if err != nil {
		c.Inconclusive("second pool: %v", err)
		return
	}
	defer pool.Close()
	mixed := false
	for _, d := range s.decls {
		mixed = mixed || hasMixedCase(d)
	}
	for _, st := range stmts {
		if _, err := pool.Exec(context.Background(), st); err != nil {
			stt := sqlstate(err.Error())
			if stt == "42703" && s.shared {
				// an index of one shape names a column another shape contributes later in the script: order dependent
				c.Seen("print_schema_notes", "index statement before its column exists in a shared table")
				continue
			}
			s.violate(kp+"print-schema:statement-fails:"+stt, map[string]any{"statement": st, "error": err.Error()}, "a statement of the printed schema fails: %s: %v", st, err)
			return
		}
	}
	for _, g := range s.env.Conf.Integrations {
		var t *fakepg.Table
		pg.Read(func() { t = pg.TableByName("public." + g.Table.Name) })
		if t == nil {
			if mixed {
				s.violate(kp+"ddl-copy-case-mismatch", map[string]any{"table": g.Table.Name, "schema": stmts}, "the printed schema creates table %q under a folded name; COPY addresses it quoted", g.Table.Name)
			} else {
				s.violate(kp+"print-schema:missing-table", map[string]any{"table": g.Table.Name, "schema": stmts}, "the printed schema does not create table %q", g.Table.Name)
			}
			continue
		}
		for _, col := range g.Table.Columns {
			if t.ColIdx(col.Name) >= 0 {
				continue
			}
			if col.Name != strings.ToLower(col.Name) {
				s.violate(kp+"ddl-copy-case-mismatch", map[string]any{"table": g.Table.Name, "column": col.Name, "schema": stmts}, "the printed schema creates column %q of %s under a folded name; COPY addresses it quoted", col.Name, g.Table.Name)
				continue
			}
			s.violate(kp+"print-schema:missing-column", map[string]any{"table": g.Table.Name, "integration": g.Name, "column": col.Name, "table_columns": t.ColNames(), "schema": stmts},
				"the printed schema of table %s lacks column %q which integration %s writes", g.Table.Name, col.Name, g.Name)
		}
	}
}

// run does the common part: boot result handling, first pass, re-insert, printed schema.
func (s *c16Scen) run() {
	c := s.c
	env := s.env
	c.Obs("scenarios", 1)
	c.Evals(1)
	if env.SetupErr != nil {
		es := env.SetupErr.Error()
		ex := map[string]any{"stage": env.SetupStage, "error": firstLines(es, 3)}
		mixed := false
		for _, d := range s.decls {
			mixed = mixed || hasMixedCase(d)
		}
		switch {
		case env.SetupStage == "migrate" && s.kind == "existing-sql" && sqlstate(es) == "42703" && strings.Contains(es, "unique index"):
			s.violate("existing-table:index-created-before-missing-columns-added", ex, "migration of an existing table with fewer columns fails: the unique index is created before the missing columns are added: %s", firstLines(es, 1))
		case env.SetupStage == "migrate" && mixed:
			s.violate("ddl-copy-case-mismatch", ex, "migration fails on mixed-case names: %s", firstLines(es, 1))
		case s.columnless && env.SetupStage == "validate":
			// a block field without any column: refusing it is the unchanged answer
			c.Obs("columnless_identity_field_refused", 1)
		case env.SetupStage == "migrate" || env.SetupStage == "panic":
			s.violate("migrate-fails:"+sqlstate(es)+":"+s.kind, ex, "validation accepted the configuration but the migration fails: %s", firstLines(es, 1))
		default:
			c.Inconclusive("a generated configuration was rejected at %s: %v", env.SetupStage, firstLines(es, 2))
		}
		return
	}
	if strings.HasPrefix(s.kind, "existing") {
		c.Obs("existing_table_migrated", 1)
	}
	s.printSchema()
	done := s.firstPass()
	total := 0
	for _, t := range env.Tasks {
		in := t.VerifInfo()
		n, _ := pairRowCount(env.PG, s.spec.Decl(in.IGName).Table, in.SrcName, in.IGName)
		total += n
	}
	c.Obs("first_pass_rows", int64(total))
	s.identityWritten()
	for _, t := range env.Tasks {
		in := t.VerifInfo()
		if done[in.SrcName+"/"+in.IGName] {
			s.reinsert(t)
		}
	}
	if us := env.PG.Unsupported(); len(us) > 0 {
		c.Inconclusive("fakepg contract left: %v", us)
	}
}

func c16Detail(env *scen.Env, kind string) map[string]any {
	return map[string]any{"config": string(env.ConfJSON), "kind": kind}
}

var c16Reserved = []string{"to", "from", "user", "order", "table", "select", "default", "end", "check", "desc",
	// reserved (can be function or type): not usable as column names either
	"left", "right", "full", "like", "is", "join", "binary", "natural"}

func c16Run(c *vk.Case) {
	r := c.R
	kinds := []string{"single", "single", "shared", "shared", "validation", "existing-sql", "existing-upgrade", "special-names"}
	kind := kinds[c.Index%len(kinds)]
	srcs := []string{namePoolSrc[0]}
	if r.Chance(1, 4) {
		srcs = append(srcs, namePoolSrc[1])
	}
	ids := []string{"default", "user-named", "no-renamed-binding", "declared-only", "default"}
	mkOpts := func() c16Opts {
		o := c16Opts{kind: kind, mode: r.Intn(3), identity: vk.Pick(r, ids), userUniq: r.Chance(1, 6), arrays: r.Bool(), notify: r.Chance(1, 3), extraCols: r.Chance(1, 3)}
		if kind == "single" && c.Index%16 < 8 {
			// every identity column × every shape gets its "declared in table.columns, not selected under block" cases
			o.identity, o.userUniq = "declared-only", false
			o.mode = (c.Index / 16) % 3
			o.declare = c.Index / 48
			o.arrays = (c.Index/16)%2 == 0
			if o.mode == int(model.ModeLog) {
				o.wantArray = o.arrays
			}
		} else {
			o.declare = r.Intn(8)
			if kind == "single" && r.Chance(1, 3) {
				o.mode, o.allIndexed, o.arrays, o.userUniq = int(model.ModeLog), true, false, false
			}
		}
		return o
	}
	var decls []*model.Decl
	switch kind {
	case "existing-upgrade":
		o := mkOpts()
		o.userUniq = false
		if c.Index%16 < 8 {
			o.mode, o.wantIndexed, o.wantArray, o.arrays = int(model.ModeLog), true, true, true
		}
		decls = []*model.Decl{c16Decl(r, 0, namePoolTbl[0], srcs, o)}
	case "shared":
		n := r.Range(2, 3)
		same := r.Chance(1, 5)
		for k := 0; k < n; k++ {
			o := mkOpts()
			o.userUniq = false
			o.identity = "no-renamed-binding"
			if same {
				o.mode = int(model.ModeTx)
			} else if k < 3 && n == 3 {
				o.mode = k
			}
			decls = append(decls, c16Decl(r, k, namePoolTbl[0], srcs[:1], o))
		}
		vk.Shuffle(r, decls)
		if r.Bool() {
			// an integration with a table of its own between the sharers (they are no longer adjacent in the file)
			o := mkOpts()
			o.userUniq, o.identity = false, "no-renamed-binding"
			own := c16Decl(r, 3, namePoolTbl[3], srcs[:1], o)
			decls = append(decls[:1], append([]*model.Decl{own}, decls[1:]...)...)
			c.Obs("shared_table_scenarios_with_table_in_between", 1)
		}
		c.Obs("shared_table_scenarios", 1)
	default:
		decls = []*model.Decl{c16Decl(r, 0, namePoolTbl[0], srcs, mkOpts())}
	}
	if strings.HasPrefix(kind, "existing") && (c.Index/8)%4 == 1 {
		// a table name longer than PostgreSQL keeps (63 bytes): statements address the truncated name, the catalog
		// lookup of the migration compares the untruncated string; the existing table still has to get its columns
		decls[0].Table = namePoolTbl[0] + "_" + strings.Repeat("long_name_", 7)
		c.Obs("existing_table_scenarios_with_name_over_63_bytes", 1)
	}
	for _, d := range decls {
		for _, ec := range d.ExtraCols {
			if _, ok := c16AutoType[ec.Name]; ok {
				c.Obs("declared_only_scenarios", 1)
				c.Seen("declared_only", d.Mode().String()+":"+ec.Name)
			}
		}
	}
	columnless := kind == "single" && c.Index%32 == 25
	if columnless {
		// an identity field listed under block with a filter and no column: if the configuration is accepted at all,
		// the rows still have to be told apart by that field
		d := decls[0]
		name := vk.Pick(r, []string{"block_num", "tx_idx"})
		keep := d.Block[:0:0]
		for _, b := range d.Block {
			if b.Name != name {
				keep = append(keep, b)
			}
		}
		d.Block = append(keep, model.BlockField{Name: name, Column: "", ColType: "numeric", Filter: model.Filter{Op: "gt", Arg: []string{"0"}}})
		c.Obs("columnless_identity_field_scenarios", 1)
	}
	emptyData := kind == "single" && c.Index%16 == 9 && decls[0].Mode() == model.ModeLog && len(refmodel.SelectedLeaves(decls[0].Inputs)) > 0
	chain := c16Chain(r, decls, c16ABI, emptyData)
	spec := c16Spec(r, decls, srcs, chain)
	sc := &c16Scen{c: c, kind: kind, decls: decls, spec: spec, chain: chain, shared: kind == "shared", emptyData: emptyData, columnless: columnless}
	if emptyData {
		c.Obs("empty_data_log_scenarios", 1)
	}
	sig := func(extra string) {
		var ms []string
		for _, d := range decls {
			ms = append(ms, d.Mode().String())
		}
		var vs []string
		for _, v := range c.Res.Violations {
			vs = append(vs, v.Key)
		}
		c.SetSig("%s modes=%s srcs=%d %s outcome=%s", kind, strings.Join(ms, "+"), len(srcs), extra, strings.Join(vs, ","))
	}
	for _, d := range decls {
		if d.Mode() == model.ModeLog && len(refmodel.SelectedLeaves(d.Inputs)) > 0 {
			for _, l := range refmodel.SelectedLeaves(d.Inputs) {
				if l.ArrayDepth > 0 {
					c.Obs("array_row_logs", 1)
					break
				}
			}
		}
	}

	switch kind {
	case "single", "shared":
		env, err := scen.New(spec, false)
		if err != nil {
			c.Inconclusive("environment: %v", err)
			return
		}
		defer env.Close()
		sc.env, sc.detail = env, c16Detail(env, kind)
		sc.run()
		sig(fmt.Sprintf("uniq=%v", len(decls[0].Unique) > 0))
		if c.Index < 8 {
			c.Sample(map[string]any{"kind": kind, "config": string(env.ConfJSON), "unique_indexes": uniqueKeys(env.PG, decls[0].Table)})
		}

	case "validation":
		c16Validation(c, sc)
		sig("")

	case "existing-sql":
		d := decls[0]
		type colT struct{ n, t string }
		var all []colT
		seen := map[string]bool{}
		for _, cc := range d.TableColumns() {
			all = append(all, colT{cc.Name, cc.Type})
			seen[cc.Name] = true
		}
		for _, n := range c16Auto(d) {
			if !seen[n] {
				all = append(all, colT{n, c16AutoType[n]})
			}
		}
		vk.Shuffle(r, all)
		keep := r.Range(1, len(all)-1)
		onlyData := c.Index%16 < 8 // the existing table has every identity column; only data columns are missing
		var defs, dropped []string
		for i, cc := range all {
			_, isID := c16AutoType[cc.n]
			if i < keep || (onlyData && isID) {
				defs = append(defs, wpgQuote(cc.n)+" "+cc.t)
			} else {
				dropped = append(dropped, cc.n)
			}
		}
		ddl := "create table if not exists " + d.Table + "(" + strings.Join(defs, ", ") + ")"
		env, err := scen.NewRaw(spec, func(pgurl string) []byte { return spec.ConfigJSON(pgurl) }, false, func(e *scen.Env) error {
			_, err := e.Pool.Exec(context.Background(), ddl)
			return err
		})
		if err != nil {
			c.Inconclusive("environment: %v", err)
			return
		}
		defer env.Close()
		c.Obs("existing_table_scenarios", 1)
		sc.env, sc.detail = env, merge(c16Detail(env, kind), map[string]any{"table_existing_before_boot": ddl, "columns_missing_before_boot": dropped})
		sc.run()
		keyDropped := false
		for _, n := range dropped {
			if _, ok := c16AutoType[n]; ok {
				keyDropped = true
			}
		}
		sig(fmt.Sprintf("key-column-missing=%v", keyDropped))

	case "existing-upgrade":
		// an earlier, smaller configuration of the same integration created the table; the
		// current one selects more (possibly needing more identity columns)
		full := decls[0]
		small := *full
		small.Inputs = gen.CloneFields(full.Inputs)
		if full.Mode() == model.ModeLog {
			// earlier version: only the indexed inputs were selected (no abi_idx), or fewer block fields
			var cols []*refmodel.Field
			var nested []bool
			eventColumns(small.Inputs, true, &cols, &nested)
			nIndexedSel := 0
			for _, f := range cols {
				if f.Indexed {
					nIndexedSel++
				}
			}
			if nIndexedSel > 0 && (c.Index%16 < 8 || r.Bool()) {
				for _, f := range cols {
					if !f.Indexed {
						f.Column = ""
					}
				}
			}
		}
		if len(small.Block) > 1 {
			small.Block = append([]model.BlockField(nil), full.Block[:len(full.Block)-1]...)
			if full.Mode() == model.ModeTrace && small.Mode() != model.ModeTrace {
				small.Block = append([]model.BlockField(nil), full.Block...)
			}
		}
		small.Notify = nil
		specSmall := &scen.Spec{Sources: spec.Sources, Decls: []*model.Decl{&small}}
		env, err := scen.NewRaw(spec, func(pgurl string) []byte { return specSmall.ConfigJSON(pgurl) }, false, nil)
		if err != nil {
			c.Inconclusive("environment: %v", err)
			return
		}
		defer env.Close()
		oldConf := string(env.ConfJSON)
		if env.SetupErr != nil {
			c.Obs("upgrade_old_config_rejected", 1)
			return
		}
		oldKeys := uniqueKeys(env.PG, full.Table)
		// restart with the current configuration (the earlier one never indexed anything: empty table)
		env.ConfJSON = spec.ConfigJSON(env.PG.URL())
		env.BootRecover()
		c.Obs("existing_table_scenarios", 1)
		sc.env, sc.detail = env, merge(c16Detail(env, kind), map[string]any{"earlier_config": oldConf, "unique_indexes_before_upgrade": oldKeys})
		sc.run()
		sig(fmt.Sprintf("key-changed=%v", !sameSet(firstOr(oldKeys), generatedKey(env.Conf, full.Name))))

	case "special-names":
		d := decls[0]
		mixed := c.Index%32 == 7
		// the same for the table's own name: upper case, a dash (both pass the configuration's character check), a
		// reserved word
		tableSpecial := ""
		switch c.Index % 32 {
		case 15:
			tableSpecial, d.Table = "table-mixed-case", "Transfers"+strings.ToUpper(namePoolTbl[0][2:])
		case 23:
			tableSpecial, d.Table = "table-with-dash", "erc20-"+namePoolTbl[0]
		case 31:
			tableSpecial, d.Table = "table-reserved-word", vk.Pick(r, []string{"order", "user", "table", "end"})
		}
		words := append([]string(nil), c16Reserved...)
		vk.Shuffle(r, words)
		wi := 0
		pickName := func(old string) string {
			if mixed {
				return strings.ToUpper(old[:1]) + old[1:] + "X"
			}
			w := words[wi%len(words)]
			wi++
			return w
		}
		renamed := map[string]string{}
		for i := range d.Block {
			b := &d.Block[i]
			if _, id := c16AutoType[b.Name]; id || strings.HasPrefix(b.Name, "trace_") || wi >= 3 {
				continue
			}
			nn := pickName(b.Column)
			renamed[b.Column] = nn
			b.Column = nn
		}
		var cols []*refmodel.Field
		var nested []bool
		eventColumns(d.Inputs, true, &cols, &nested)
		for _, f := range cols {
			if wi >= 5 && !mixed {
				break
			}
			nn := pickName(f.Column)
			if ty, ok := d.ColTypes[f.Column]; ok {
				d.ColTypes[nn] = ty
			}
			renamed[f.Column] = nn
			f.Column = nn
		}
		for i, n := range d.Notify {
			if nn, ok := renamed[n]; ok {
				d.Notify[i] = nn
			}
		}
		if r.Bool() && len(renamed) > 0 && !mixed {
			for _, nn := range renamed {
				d.Index = append(d.Index, []string{nn})
				break
			}
		}
		sc.special = "reserved"
		if mixed {
			sc.special = "mixed-case"
		}
		if tableSpecial != "" {
			sc.special += "+" + tableSpecial
			c.Obs("special_table_name_scenarios", 1)
		}
		if !mixed {
			// a dependent integration whose reference filter names a reserved-word column
			for _, b := range d.Block {
				if pgReserved[b.Column] && b.ColType == "bytea" {
					dep := &model.Decl{Name: namePoolIG[1], Enabled: true, Table: namePoolTbl[1], ColTypes: map[string]string{}, InFilter: map[string]model.Filter{},
						Sources: []model.SrcRef{{Name: srcs[0], Start: 1}},
						Block: []model.BlockField{{Name: "tx_hash", Column: "tx_hash", ColType: "bytea",
							Filter: model.Filter{Op: "contains", Ref: &model.Ref{Integration: d.Name, Column: b.Column}}}}}
					decls = append(decls, dep)
					spec.Decls, sc.decls = decls, decls
					c.Obs("reserved_word_reference_scenarios", 1)
					break
				}
			}
		}
		// the chain was built for the declaration before renaming: columns do not matter to log makers
		env, err := scen.New(spec, false)
		if err != nil {
			c.Inconclusive("environment: %v", err)
			return
		}
		defer env.Close()
		c.Obs("special_name_scenarios", 1)
		sc.env, sc.detail = env, merge(c16Detail(env, kind), map[string]any{"special": sc.special, "renamed_columns": renamed})
		sc.run()
		sig(sc.special)
	}
}

func firstOr(ks [][]string) []string {
	if len(ks) > 0 {
		return ks[0]
	}
	return nil
}

var pgReserved = map[string]bool{}

func init() {
	for _, w := range c16Reserved {
		pgReserved[w] = true
	}
}

// wpgQuote quotes reserved words the way an operator writing DDL by hand would.
func wpgQuote(n string) string {
	if pgReserved[strings.ToLower(n)] || n != strings.ToLower(n) {
		return `"` + n + `"`
	}
	return n
}

// c16Validation removes, one at a time, table columns that a selected input, a
// block field or a notification names; validation must reject the result.
func c16Validation(c *vk.Case, sc *c16Scen) {
	d := sc.decls[0]
	if len(d.Notify) == 0 {
		ws := d.WrittenColumns()
		d.Notify = []string{ws[c.R.Intn(len(ws))]}
	}
	auto := map[string]bool{}
	for _, n := range c16Auto(d) {
		auto[n] = true
	}
	type removal struct{ col, kind string }
	var rms []removal
	var cols []*refmodel.Field
	var nested []bool
	eventColumns(d.Inputs, true, &cols, &nested)
	for i, f := range cols {
		k := "input"
		if nested[i] {
			k = "nested-input"
		}
		rms = append(rms, removal{f.Column, k})
	}
	for _, b := range d.Block {
		rms = append(rms, removal{b.Column, "block"})
	}
	rms = append(rms, removal{"ghost_col", "notification"})
	base := sc.spec
	for _, rm := range rms {
		rm := rm
		conf := func(pgurl string) []byte {
			var root map[string]any
			if err := json.Unmarshal(base.ConfigJSON(pgurl), &root); err != nil {
				panic(err)
			}
			ig := root["integrations"].([]any)[0].(map[string]any)
			if rm.kind == "notification" {
				nt, _ := ig["notification"].(map[string]any)
				if nt == nil {
					nt = map[string]any{}
					ig["notification"] = nt
				}
				l, _ := nt["columns"].([]any)
				nt["columns"] = append(l, rm.col)
			} else {
				tb := ig["table"].(map[string]any)
				var keep []any
				for _, cc := range tb["columns"].([]any) {
					if cc.(map[string]any)["name"] != rm.col {
						keep = append(keep, cc)
					}
				}
				tb["columns"] = keep
				// a notification naming the removed column would be reported too: keep the kinds apart
				if nt, ok := ig["notification"].(map[string]any); ok {
					var nk []any
					for _, n := range nt["columns"].([]any) {
						if n != rm.col {
							nk = append(nk, n)
						}
					}
					nt["columns"] = nk
				}
			}
			b, _ := json.Marshal(root)
			return b
		}
		node := simnode.Global().NewNode(sc.chain)
		spec := &scen.Spec{Decls: base.Decls, Sources: []scen.SourceSpec{base.Sources[0]}}
		spec.Sources[0].Node = node
		env, err := scen.NewRaw(spec, conf, false, nil)
		if err != nil {
			c.Inconclusive("environment: %v", err)
			return
		}
		c.Obs("validation_removals", 1)
		c.Evals(1)
		switch {
		case env.SetupStage == "validate":
			c.Obs("validation_rejected", 1)
		case env.SetupErr != nil && env.SetupStage == "decode":
			c.Inconclusive("decode: %v", env.SetupErr)
		case rm.kind != "notification" && auto[rm.col]:
			c.Obs("validation_readded_identity_column", 1)
		default:
			// accepted although the column is gone: what happens next is the witness
			next := "boot ok"
			if env.SetupErr != nil {
				next = env.SetupStage + ": " + firstLines(env.SetupErr.Error(), 1)
			} else {
				for _, t := range env.Tasks {
					for k := 0; k < 3; k++ {
						res := env.Step(t)
						if res.Panic != "" {
							next = "panic: " + firstLines(res.Panic, 1)
							break
						}
						if res.Err != nil && !errors.Is(res.Err, shovel.ErrNothingNew) {
							next = "step fails: " + firstLines(res.Err.Error(), 1)
							break
						}
					}
				}
			}
			c.Violate("validation-accepts-missing-column:"+rm.kind, map[string]any{"config": string(env.ConfJSON), "column": rm.col, "then": next},
				"ValidateFix accepted a configuration whose %s names column %q which the table does not have (then: %s)", rm.kind, rm.col, next)
		}
		env.Close()
	}
}
