package checks

import (
	"errors"
	"fmt"
	"sort"
	"strings"
	"sync"

	"github.com/indexsupply/shovel/shovel"

	"verif/harness/gen"
	"verif/harness/model"
	"verif/harness/refmodel"
	"verif/harness/scen"
	"verif/harness/simnode"
	"verif/harness/vk"
)

// C14 — every selectable field is actually fetched: no column silently left
// zero. All singles and all pairs of mode-compatible field names, exhaustively.

const c14Shards = 48

type c14Set struct {
	mode   model.Mode
	fields []string
}

// c14Universe lists the field names selectable in a mode.
func c14Universe(mode model.Mode) []string {
	var res []string
	for _, f := range gen.Fields {
		switch f.Class {
		case "ctx", "header", "block", "receipt":
			res = append(res, f.Name)
		case "log":
			if mode == model.ModeLog {
				res = append(res, f.Name)
			}
		case "trace":
			if mode == model.ModeTrace {
				res = append(res, f.Name)
			}
		}
	}
	return res
}

func isTraceField(n string) bool { return strings.HasPrefix(n, "trace_") }

// c14Grid: all singles and pairs per mode (trace mode: sets holding a trace field).
func c14Grid() []c14Set {
	var res []c14Set
	for _, mode := range []model.Mode{model.ModeTx, model.ModeLog, model.ModeTrace} {
		u := c14Universe(mode)
		for i, a := range u {
			if mode != model.ModeTrace || isTraceField(a) {
				res = append(res, c14Set{mode, []string{a}})
			}
			for _, b := range u[i+1:] {
				if mode == model.ModeTrace && !isTraceField(a) && !isTraceField(b) {
					continue
				}
				res = append(res, c14Set{mode, []string{a, b}})
			}
		}
	}
	return res
}

func c14Random(tier string) int {
	if tier == "thorough" {
		return 6000
	}
	return 200
}

func init() {
	grid := c14Grid()
	vk.Register(&vk.Check{
		ID:        "C14",
		Level:     "exploration",
		Technique: "ground-truth cell comparison on a chain whose every field value is distinct and non-zero, over all singles and pairs of selectable field names per indexing mode (exhaustive) and random larger sets, through ValidateFix and the full pipeline",
		Rule: fmt.Sprintf("field universe = the 28 documented block-data names; per mode (tx without event, log with event, trace) the mode-compatible names; %d singles and pairs are ALL run, plus random larger sets by membership class; "+
			"each run indexes a 4-block chain in which every field of every item has its own non-zero value and compares every stored cell with what the source reported. signature = (mode, field set or class set, plan); trivial = no row expected. Half of the runs put a backend that is 1–2 blocks behind in front of a few requests (null blocks, receipts, traces; no logs for the newest blocks). Trace columns are renamed like the others; half of the trace-mode runs carry reward traces. A third of the runs shares the source with a neighbour integration that needs headers only or whole blocks for the same ranges and steps before or after the integration under test.", len(grid)),
		Assumptions: []string{
			"log fields (log_idx, log_addr) are selectable only together with an event, trace fields only without one: other mixes dereference an absent item and are outside 'may select'",
			"the configuration goes through ValidateFix, so automatically added identity fields are present as in production",
		},
		NCases:           func(tier string) int { return c14Shards + c14Random(tier) },
		Run:              c14Run,
		CrashIsViolation: true,
		CaseTimeoutS:     300,
		Exhaustive:       func(string) bool { return false },
		MinObs: func(tier string) map[string]int64 {
			return map[string]int64{"runs": int64(len(grid)), "cells_compared": 20000, "rows_expected": 5000}
		},
		Extra: func(string) map[string]any {
			return map[string]any{"singles_and_pairs_exhaustive": true, "grid_size": len(grid)}
		},
	})
}

var c14Event = []refmodel.Field{
	{Name: "a", Type: refmodel.Address(), Indexed: true, Column: "ev_a"},
	{Name: "v", Type: refmodel.Uint(256), Column: "ev_v"},
}

func c14One(c *vk.Case, set c14Set, seed uint64) {
	r := vk.NewRNG(seed)
	d := &model.Decl{Name: namePoolIG[0], Enabled: true, Table: namePoolTbl[0], ColTypes: map[string]string{}, InFilter: map[string]model.Filter{}}
	d.Sources = []model.SrcRef{{Name: namePoolSrc[0], Start: 1}}
	// a third of the runs stores the fields under columns of other names (the column name is the user's choice; what
	// is fetched, and whether rows are per transaction or per trace, depends on the field); identity columns keep their names
	rename := r.Chance(1, 3)
	for _, n := range set.fields {
		fi := gen.FieldByName(n)
		col := n
		if rename && n != "block_num" && n != "tx_idx" && n != "log_idx" && fi.Class != "ctx" {
			col = "c_" + n
		}
		d.Block = append(d.Block, model.BlockField{Name: n, Column: col, ColType: fi.ColType})
	}
	if rename {
		c.Obs("runs_with_renamed_columns", 1)
	}
	co := gen.ChainOpts{Seed: r.U64(), MinTxs: 2, MaxTxs: 3, MaxLogs: 2, MinTraces: 2, MaxTraces: 3, Distinct: true}
	if set.mode == model.ModeTrace && r.Bool() {
		co.Rewards = 2 // reward traces at the end of trace_block, naming no transaction
		c.Obs("runs_with_reward_traces", 1)
	}
	if set.mode == model.ModeLog {
		d.EventName = "Probe"
		d.Inputs = c14Event
		addrs := [][]byte{r.Bytes(20), r.Bytes(20)}
		co.Makers = []gen.LogMaker{func(r *vk.RNG) simnode.Log {
			return model.MakeLog(d.EventName, d.Inputs, []any{append([]byte{7}, r.Bytes(19)...), r.BigBits(200)}, vk.Pick(r, addrs))
		}}
	}
	if set.mode == model.ModeTx && r.Chance(1, 3) {
		// an event is declared but none of its inputs is stored: the integration still indexes transactions, and what
		// its fields need does not depend on which blocks happen to hold a log of that event
		d.EventName = "Probe"
		for _, f := range c14Event {
			f.Column = ""
			d.Inputs = append(d.Inputs, f)
		}
		addrs := [][]byte{r.Bytes(20), r.Bytes(20)}
		co.MaxLogs = 1
		co.Makers = []gen.LogMaker{func(r *vk.RNG) simnode.Log {
			return model.MakeLog(d.EventName, d.Inputs, []any{append([]byte{7}, r.Bytes(19)...), r.BigBits(200)}, vk.Pick(r, addrs))
		}}
		c.Obs("runs_with_unselected_event", 1)
	}
	content := gen.Content(co)
	if d.EventName == "Probe" && set.mode == model.ModeTx {
		inner := content
		content = func(b *simnode.Block) {
			inner(b)
			if b.Num%2 == 0 { // every other block holds no log of the event
				for i := range b.Txs {
					b.Txs[i].Logs = nil
				}
			}
		}
	}
	chain := simnode.NewChain(nextChainID(), content)
	chain.Grow(4)
	node := simnode.Global().NewNode(chain)
	if r.Bool() {
		// a load balancer with a backend that is a block or two behind: a few of the requests are answered from the
		// shorter chain (null blocks, receipts and traces, no logs for the newest blocks). Such an answer may fail the
		// step; it must never be taken for "this block has nothing of the kind"
		var lmu sync.Mutex
		lr, left := r.Fork(), 5
		node.SetHook(func(info *simnode.ReqInfo) simnode.Action {
			lmu.Lock()
			defer lmu.Unlock()
			act := simnode.Action{ElemErr: -1}
			if info.Poller || left == 0 || !lr.Bool() {
				return act
			}
			for _, cl := range info.Calls {
				if cl.BlockArg == "latest" {
					return act // the head the task is told stays the real one (the run ends after three idle steps)
				}
			}
			left--
			act.Behind = lr.Range(1, 2)
			c.Obs("requests_answered_by_lagging_backend", 1)
			return act
		})
		c.Obs("runs_with_lagging_backend", 1)
	}
	decls := []*model.Decl{d}
	// a third of the runs shares the source (one client, one set of download caches) with a second integration whose
	// selection needs another kind of download for the same block ranges (headers only, or whole blocks); the two take
	// turns, one or the other first. What an integration is handed must not depend on what its neighbour asked for
	var comp *model.Decl
	compFirst := false
	if r.Chance(1, 3) {
		cf := "block_time"
		if r.Bool() {
			cf = "tx_input"
		}
		comp = &model.Decl{Name: namePoolIG[1], Enabled: true, Table: namePoolTbl[1], ColTypes: map[string]string{}, InFilter: map[string]model.Filter{}}
		comp.Sources = []model.SrcRef{{Name: namePoolSrc[0], Start: 1}}
		comp.Block = []model.BlockField{{Name: cf, Column: cf, ColType: gen.FieldByName(cf).ColType}}
		if cf == "block_time" {
			// headers are enough only for an integration that reads logs: the neighbour declares an event nobody emits
			comp.EventName = "Neighbour"
			comp.Inputs = c14Event
		}
		compFirst = r.Bool()
		decls = append(decls, comp)
		c.Obs("runs_with_neighbour_on_same_source", 1)
	}
	spec := &scen.Spec{Sources: []scen.SourceSpec{{Name: namePoolSrc[0], ChainID: 9, Batch: 2, Concurrency: 1, Poll: "1h", Node: node}}, Decls: decls}
	env, err := scen.New(spec, false)
	if err != nil {
		c.Inconclusive("environment: %v", err)
		return
	}
	defer env.Close()
	c.Obs("runs", 1)
	c.Evals(1)
	fs := strings.Join(set.fields, "+")
	detail := map[string]any{"mode": set.mode.String(), "fields": set.fields, "config": string(env.ConfJSON)}
	if env.SetupErr != nil {
		c.Violate("setup-rejected:mode="+set.mode.String()+":fields="+fs, merge(detail, map[string]any{"error": env.SetupErr.Error()}), "selection %s rejected at %s: %v", fs, env.SetupStage, env.SetupErr)
		return
	}
	task := env.Task(namePoolSrc[0], d.Name)
	if task == nil {
		c.Inconclusive("task missing")
		return
	}
	plan := task.VerifInfo().Filter
	detail["plan"] = plan
	var ctask *shovel.Task
	if comp != nil {
		if ctask = env.Task(namePoolSrc[0], comp.Name); ctask == nil {
			c.Inconclusive("neighbour task missing")
			return
		}
		detail["neighbour_plan"] = ctask.VerifInfo().Filter
		detail["neighbour_first"] = compFirst
		c.Seen("plan_pairs_sharing_a_source", plan+" next to "+ctask.VerifInfo().Filter)
	}
	pm := newPairMon(c, env, namePoolSrc[0], d.Name)
	pm.first = 1
	idle := 0
	lastErr := ""
	for i := 0; i < 40 && idle < 3; i++ {
		if ctask != nil && compFirst {
			env.Step(ctask)
		}
		res := env.Step(task)
		if ctask != nil && !compFirst {
			env.Step(ctask)
		}
		if res.Panic != "" {
			fr := vk.TopShovelFrame(res.Panic)
			c.Violate("panic:"+fr+":mode="+set.mode.String(), merge(detail, map[string]any{"panic": firstLines(res.Panic, 20)}), "Converge panicked in %s with fields %s", fr, fs)
			return
		}
		if errors.Is(res.Err, shovel.ErrNothingNew) {
			idle++
		} else if res.Err != nil {
			lastErr = res.Err.Error()
		}
	}
	t, rows, cursors := pm.pairRows()
	var want []model.Row
	for n := uint64(1); n <= chain.Head().Num; n++ {
		want = append(want, model.ProjectBlock(d, namePoolSrc[0], 9, chain.At(n), nil)...)
	}
	c.Obs("rows_expected", int64(len(want)))
	if len(cursors) == 0 || cursors[len(cursors)-1].num != chain.Head().Num {
		c.Violate("never-indexed:mode="+set.mode.String()+":plan="+plan+":"+errKind(lastErr), merge(detail, map[string]any{"last_error": lastErr}),
			"with fields %s (plan %s) the integration never reached the head: %s", fs, plan, lastErr)
		return
	}
	if t == nil {
		c.Inconclusive("table missing")
		return
	}
	cols := tableCols(t)
	got := model.StoredRows(t, rows)
	extra, missing := model.DiffRows(got, want, cols)
	c.Obs("cells_compared", int64(len(got)*len(cols)))
	if len(extra) == 0 && len(missing) == 0 {
		if len(want) > 0 {
			c.SetSig("mode=%s fields=%s plan=%s", set.mode, fs, plan)
		}
		return
	}
	// which columns hold wrong values? compare after keying rows by their identity columns
	wrongCols := c14WrongCols(got, want, cols)
	switch {
	case len(got) != len(want):
		c.Violate(fmt.Sprintf("row-count:mode=%s:plan=%s:got-%s-than-expected", set.mode, plan, map[bool]string{true: "fewer", false: "more"}[len(got) < len(want)]),
			merge(detail, map[string]any{"rows": len(got), "expected": len(want), "only_in_projection": shortList(missing, 3)}),
			"fields %s (plan %s): %d rows stored, %d expected", fs, plan, len(got), len(want))
	case len(wrongCols) > 0:
		for _, wc := range wrongCols {
			c.Violate("wrong-value:field="+strings.TrimPrefix(wc, "c_")+":plan="+plan, merge(detail, map[string]any{"only_in_table": shortList(extra, 2), "only_in_projection": shortList(missing, 2)}),
				"column %s does not hold the value the source reported when selected with %s (plan %s)", wc, fs, plan)
		}
	default:
		c.Violate("rows-differ:mode="+set.mode.String()+":plan="+plan, merge(detail, map[string]any{"only_in_table": shortList(extra, 3), "only_in_projection": shortList(missing, 3)}), "rows differ for fields %s", fs)
	}
}

func errKind(e string) string {
	switch {
	case e == "":
		return "no-error"
	case strings.Contains(e, "empty result"):
		return "empty-result"
	case strings.Contains(e, "COPY") || strings.Contains(e, "encode"):
		return "insert-error"
	}
	return "error"
}

// c14WrongCols pairs stored and expected rows by their identity columns and
// lists the columns whose values differ.
func c14WrongCols(got, want []model.Row, cols []string) []string {
	id := func(r model.Row) string {
		var sb strings.Builder
		for _, k := range []string{"block_num", "tx_idx", "log_idx", "abi_idx", "trace_action_idx"} {
			if v, ok := r[k]; ok {
				sb.WriteString(k + "=" + model.CanonValue(v) + " ")
			}
		}
		return sb.String()
	}
	wm := map[string]model.Row{}
	for _, w := range want {
		wm[id(w)] = w
	}
	bad := map[string]bool{}
	for _, g := range got {
		w, ok := wm[id(g)]
		if !ok {
			continue
		}
		for _, col := range cols {
			if model.CanonValue(g[col]) != model.CanonValue(w[col]) {
				bad[col] = true
			}
		}
	}
	var res []string
	for k := range bad {
		res = append(res, k)
	}
	sort.Strings(res)
	return res
}

func c14Run(c *vk.Case) {
	if c.Index < c14Shards {
		for i, set := range c14Grid() {
			if i%c14Shards != c.Index {
				continue
			}
			c14One(c, set, vk.Derive(c.Seed, 0xC14, uint64(i)))
			if len(c.Res.Violations) >= 12 {
				break
			}
		}
		if c.Index == 0 {
			c.Sample(map[string]any{"grid": "all singles and pairs per mode", "example": map[string]any{"mode": "tx", "fields": []string{"tx_value", "tx_status"}, "expected_plan": "b,r"}})
		}
		return
	}
	// random larger sets by membership class
	r := c.R
	mode := model.Mode(r.Intn(3))
	u := c14Universe(mode)
	vk.Shuffle(r, u)
	n := r.Range(3, 8)
	if n > len(u) {
		n = len(u)
	}
	set := c14Set{mode: mode, fields: append([]string(nil), u[:n]...)}
	if mode == model.ModeTrace {
		has := false
		for _, f := range set.fields {
			if isTraceField(f) {
				has = true
			}
		}
		if !has {
			set.fields[0] = "trace_action_from"
		}
	}
	sort.Strings(set.fields)
	c14One(c, set, r.U64())
}
