package checks

import (
	"encoding/hex"
	"fmt"
	"sync"

	"verif/harness/gen"
	"verif/harness/model"
	"verif/harness/scen"
	"verif/harness/simnode"
	"verif/harness/vk"
)

// C04 — tasks are isolated: one task never alters another task's rows or
// position; every row is stamped with the pair that produced it.

func init() {
	vk.Register(&vk.Check{
		ID:        "C04",
		Level:     "exploration",
		Technique: "effect-level ownership monitor at every commit of the fake Postgres + before/after comparison of every other pair's state around each step + per-pair reference projection at quiescence; sequential and concurrent interleavings with wire delays",
		Rule: "each case draws 1–2 sources and 2–4 integrations (shared or separate tables; same event with different address filters, or independent declarations of mixed modes; integrations attached to one or both sources), batch/concurrency per source, " +
			"then interleaves steps of all pairs in random order (even cases: sequentially, comparing every other pair's rows and positions before/after each step; odd cases: rounds of truly concurrent Converge calls with random delays at both wire boundaries), with head growth, reorgs on one source (hash plans), restarts and position-history pruning (PruneTask with a small keep count: every pair must retain exactly its newest positions), " +
			"and finally settles and compares every pair's rows with its own projection. signature = (sources, integrations, table sharing, modes, concurrent?, reorgs?, restarts?); trivial = fewer than two pairs wrote rows. One case in sixteen is the stored-pair scenario: a file pair and a pair loaded from shovel.integrations (event inputs and block_num selected, as the add-integration page offers) on one table; the stored pair digests a reorganisation first.",
		Assumptions: []string{
			"the pair a transaction acts for is the pair named in its shovel.task_updates statements",
			"integrations sharing a table use the same column set (schema union is C16's subject)",
			"reorg scenarios use plans that carry block hashes for every integration of that source",
			"fakepg reports a conflict instead of blocking when two transactions delete the same row; it is only reachable if two runners drive one pair, which C20 forbids",
		},
		NCases: func(tier string) int {
			if tier == "thorough" {
				return 2500
			}
			return 160
		},
		Run:              c04Run,
		CrashIsViolation: true,
		CaseTimeoutS:     300,
		MinObs: func(tier string) map[string]int64 {
			return map[string]int64{"commits_ownership_checked": 1500, "other_pair_comparisons": 1500, "pair_final_verdicts": 200, "concurrent_rounds": 100, "shared_table_cases": 20, "shared_source_cases": 40, "reorgs_applied": 20, "restarts": 20, "prunes": 40}
		},
	})
}

func c04Run(c *vk.Case) {
	if c.Index%16 == 15 {
		c04StoredPair(c)
		return
	}
	multiPairScenario(c, "", c.Index%2 == 1, c.R.Chance(1, 3), 0)
}

// multiPairScenario: several integrations and sources, interleaved steps,
// growth, reorgs, restarts; ownership, invariants and per-pair final verdicts.
// minShare > 0 forces that many integrations onto the first source (one shared client).
func multiPairScenario(c *vk.Case, kp string, concurrent, reorgs bool, minShare int) {
	r := c.R
	nsrc := r.Range(1, 2)
	nig := r.Range(2, 4)
	shared := r.Chance(1, 2)
	if minShare > 0 {
		nsrc = 1
		if nig < minShare {
			nig = minShare
		}
	}
	addrs := [][]byte{r.Bytes(20), r.Bytes(20), r.Bytes(20), r.Bytes(20)}
	spec := &scen.Spec{}
	var chains []*simnode.Chain
	var decls []*model.Decl
	// declarations
	var base *model.Decl
	for i := 0; i < nig; i++ {
		var d *model.Decl
		name, tbl := namePoolIG[i], namePoolTbl[i]
		if shared {
			tbl = namePoolTbl[0]
		}
		opts := gen.DeclOpts{Mode: -1, Name: name, Table: tbl, Src: namePoolSrc[0], Start: 1, ABI: pipeABI, Exclude: gen.SafeExclude, HashPlan: reorgs, SelIndexed: true}
		if shared {
			if base == nil {
				opts.Mode = int(model.ModeLog)
				base = gen.Decl(r.Fork(), opts)
				// make sure the address is part of the shape so that address filters can be attached
				has := false
				for _, b := range base.Block {
					if b.Name == "log_addr" {
						has = true
					}
				}
				if !has {
					base.Block = append(base.Block, model.BlockField{Name: "log_addr", Column: "log_addr", ColType: "bytea"})
				}
			}
			cp := *base
			cp.Name = name
			cp.Block = append([]model.BlockField(nil), base.Block...)
			if r.Bool() {
				// same event, different address filter
				for j := range cp.Block {
					if cp.Block[j].Name == "log_addr" {
						cp.Block[j].Filter = model.Filter{Op: "contains", Arg: []string{"0x" + hex.EncodeToString(addrs[i%len(addrs)])}}
					}
				}
			}
			d = &cp
		} else {
			d = gen.Decl(r.Fork(), opts)
		}
		if r.Chance(1, 3) {
			// the identity columns spelled out in table.columns (not under block): shovel still has to fill them
			have := map[string]bool{}
			for _, b := range d.Block {
				have[b.Column] = true
			}
			for _, col := range []model.Column{{Name: "ig_name", Type: "text"}, {Name: "src_name", Type: "text"}, {Name: "block_num", Type: "numeric"}, {Name: "tx_idx", Type: "int"}} {
				if !have[col.Name] {
					d.ExtraCols = append(d.ExtraCols, col)
				}
			}
			c.Obs("decls_with_declared_identity_columns", 1)
		}
		// attach to one or both sources
		d.Sources = nil
		for s := 0; s < nsrc; s++ {
			if s == i%nsrc || r.Bool() {
				d.Sources = append(d.Sources, model.SrcRef{Name: namePoolSrc[s], Start: 1})
			}
		}
		decls = append(decls, d)
	}
	// chains: content must serve every declaration
	for s := 0; s < nsrc; s++ {
		co := gen.ChainOpts{Seed: r.U64(), MinTxs: 1, MaxTxs: 3, MaxLogs: 4, MinTraces: 1, MaxTraces: 2}
		for _, d := range decls {
			if d.Mode() == model.ModeLog {
				t := gen.TargetMaker(d, addrs, pipeABI)
				co.Makers = append(co.Makers, t, t)
			}
		}
		if len(co.Makers) > 0 {
			co.Makers = append(co.Makers, gen.DecoyMakers(decls[0], addrs, pipeABI)[0])
		}
		ch := simnode.NewChain(nextChainID(), gen.Content(co))
		ch.Grow(r.Range(3, 8))
		chains = append(chains, ch)
		spec.Sources = append(spec.Sources, scen.SourceSpec{Name: namePoolSrc[s], ChainID: uint64(s + 1), Batch: r.Range(1, 6), Concurrency: r.Range(1, 3), Poll: "1h", Node: simnode.Global().NewNode(ch)})
	}
	spec.Decls = decls
	me := newMultiEnv(c, spec, kp)
	if me == nil {
		return
	}
	defer me.close()
	if me.env.SetupErr != nil {
		c.Violate(kp+"setup-rejected:"+me.env.SetupStage, map[string]any{"config": string(me.env.ConfJSON), "error": me.env.SetupErr.Error()}, "configuration rejected at %s: %v", me.env.SetupStage, me.env.SetupErr)
		return
	}
	if shared {
		c.Obs("shared_table_cases", 1)
	}
	srcUse := map[string]int{}
	for _, p := range me.pairs {
		srcUse[p.src]++
	}
	for _, n := range srcUse {
		if n > 1 {
			c.Obs("shared_source_cases", 1)
			break
		}
	}
	nops := r.Range(12, 30)
	restarts, nreorg := 0, 0
	var undo func()
	if concurrent {
		undo = delayHooks(r.Fork(), spec, me.env.PG, 2)
	} else if r.Chance(1, 3) {
		// a few transient request failures: a fetch one pair could not complete must not change what another pair
		// (or the same pair, retrying) is given for that range afterwards
		var fmu sync.Mutex
		fr := r.Fork()
		left := r.Range(1, 4)
		armed := false // fail the next segment (block/header batch) request
		for _, s := range spec.Sources {
			s.Node.SetHook(func(info *simnode.ReqInfo) simnode.Action {
				fmu.Lock()
				defer fmu.Unlock()
				act := simnode.Action{ElemErr: -1}
				if armed && !info.Poller && info.Batch && len(info.Calls) > 0 && info.Calls[0].Method == "eth_getBlockByNumber" && info.Calls[0].BlockArg != "latest" {
					armed = false
					act.Fail, act.Status = simnode.FailHTTP, 503
					c.Obs("transient_request_failures", 1)
					c.Obs("segment_fetch_failed_then_others_step", 1)
					return act
				}
				if info.Poller || left == 0 || !fr.Chance(1, 6) {
					return act
				}
				left--
				act.Fail = vk.Pick(fr, []simnode.FailKind{simnode.FailHTTP, simnode.FailRPCError, simnode.FailCut})
				act.Status = 503
				c.Obs("transient_request_failures", 1)
				return act
			})
		}
		undo = func() {
			for _, s := range spec.Sources {
				s.Node.SetHook(nil)
			}
		}
		if r.Bool() {
			// all pairs of a source stand before the same first segment: one pair's segment fetch fails, the others
			// step over that range, the first pair retries
			p := vk.Pick(r, me.pairs)
			fmu.Lock()
			armed = true
			fmu.Unlock()
			me.stepSeq(p, true)
			for _, q := range me.pairs {
				if q != p && q.src == p.src {
					me.stepSeq(q, true)
				}
			}
			me.stepSeq(p, true)
			fmu.Lock()
			armed = false
			fmu.Unlock()
		}
	}
	for i := 0; i < nops && len(c.Res.Violations) == 0; i++ {
		switch k := r.Intn(10); {
		case k == 0:
			ch := vk.Pick(r, chains)
			ch.Grow(r.Range(1, 4))
			me.trace = append(me.trace, "grow")
		case k == 1 && reorgs:
			d := r.Range(1, 3)
			chains[0].Reorg(d, d+r.Intn(2))
			nreorg++
			c.Obs("reorgs_applied", 1)
			me.trace = append(me.trace, fmt.Sprintf("reorg(%s,%d)", namePoolSrc[0], d))
		case k == 3 && r.Chance(1, 2):
			me.prune(r.Range(1, 4))
		case k == 2 && !concurrent:
			me.env.Crash()
			if me.env.SetupErr != nil {
				c.Violate(kp+"restart-failed", map[string]any{"error": me.env.SetupErr.Error()}, "restart failed: %v", me.env.SetupErr)
				return
			}
			me.bindTasks()
			restarts++
			c.Obs("restarts", 1)
			me.trace = append(me.trace, "restart")
		default:
			if concurrent {
				me.stepConcurrent(me.pairs)
			} else {
				me.stepSeq(vk.Pick(r, me.pairs), true)
			}
		}
	}
	if undo != nil {
		undo()
	}
	if len(c.Res.Violations) > 0 {
		return
	}
	// the sources settle: one more block above every position, then run to idle
	for _, ch := range chains {
		ch.Grow(2)
	}
	maxHead := 0
	for _, ch := range chains {
		if int(ch.Head().Num) > maxHead {
			maxHead = int(ch.Head().Num)
		}
	}
	if !me.settle(maxHead+40+10*len(me.pairs), nil) {
		if len(c.Res.Violations) == 0 {
			var errs []string
			for _, p := range me.pairs {
				errs = append(errs, p.name()+": "+p.lastErr)
			}
			c.Violate(kp+"no-quiescence", merge(me.detail(), map[string]any{"last_errors": errs}), "the pairs did not all reach their heads within the step bound: %v", errs)
		}
		return
	}
	me.finalVerdicts(nil)
	wrote := 0
	modes := ""
	for _, p := range me.pairs {
		if st := p.pm.captureLive(); len(st.rows) > 0 {
			wrote++
		}
	}
	for _, d := range decls {
		modes += d.Mode().String()[:2]
	}
	if wrote >= 2 {
		c.SetSig(kp+"src=%d ig=%d shared=%v modes=%s concurrent=%v reorgs=%v restarts=%v", nsrc, nig, shared, modes, concurrent, nreorg > 0, restarts > 0)
	}
	if c.Index < 4 {
		c.Sample(map[string]any{"config": string(me.env.ConfJSON), "schedule": lastN(me.trace, 60), "concurrent": concurrent})
	}
}
