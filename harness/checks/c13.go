package checks

import (
	"bytes"
	"encoding/hex"
	"encoding/json"
	"fmt"
	"strconv"
	"strings"

	"github.com/indexsupply/shovel/dig"
	"github.com/indexsupply/shovel/eth"
	"github.com/indexsupply/shovel/shovel"
	"github.com/indexsupply/shovel/shovel/config"
	"golang.org/x/crypto/sha3"

	"verif/harness/gen"
	"verif/harness/refmodel"
	"verif/harness/vk"
)

// C13 — only logs of the declared event are decoded: signature hash and topic count.
//
// Part 1 (signature): Event.Signature()/SignatureHash() against refmodel's
// canonical printer and own Keccak-256, for generated names x type trees x
// indexed layouts, and for 16 known-answer vectors whose hashes are literals.
// Part 2 (matching): blocks mixing matching logs and decoys through
// Integration.Insert with a recording connection; a log_idx block-data column
// attributes every copied row to the log it came from.

// Known answers. Transfer/Approval/Deposit/Withdrawal are the vectors fixed by
// the task; the others are widely published topic0 values (ERC-721/1155,
// Ownable, Uniswap V2/V3, Seaport) that were recalled independently and then
// confirmed with x/crypto's legacy Keccak-256.
var c13KAT = []struct{ sig, hash string }{
	{"Transfer(address,address,uint256)", "ddf252ad1be2c89b69c2b068fc378daa952ba7f163c4a11628f55a4df523b3ef"},
	{"Approval(address,address,uint256)", "8c5be1e5ebec7d5bd14f71427d1e84f3dd0314c0f7b2291e5b200ac8c7c3b925"},
	{"Deposit(address,uint256)", "e1fffcc4923d04b559f4d29a8bfc6cda04eb5b0d3c460751c2402c5c5cc9109c"},
	{"Withdrawal(address,uint256)", "7fcf532c15f0a6db0bd6d0e038bea71d30d808c7d98cb3bf7268a95bf5081b65"},
	{"ApprovalForAll(address,address,bool)", "17307eab39ab6107e8899845ad3d59bd9653f200f220920489ca2b5937696c31"},
	{"TransferSingle(address,address,address,uint256,uint256)", "c3d58168c5ae7397731d063d5bbf3d657854427343f4c083240f7aacaa2d0f62"},
	{"TransferBatch(address,address,address,uint256[],uint256[])", "4a39dc06d4c0dbc64b70af90fd698a233a518aa5d07e595d983b8c0526c8f7fb"},
	{"URI(string,uint256)", "6bb7ff708619ba0610cba295a58592e0451dee2622938c8755667688daf3529b"},
	{"OwnershipTransferred(address,address)", "8be0079c531659141344cd1fd0a4f28419497f9722a3daafe3b4186f6b6457e0"},
	{"PairCreated(address,address,address,uint256)", "0d3648bd0f6ba80134a33ba9275ac585d9d315f0ad8355cddefde31afa28d0e9"},
	{"Sync(uint112,uint112)", "1c411e9a96e071241c2f21f7726b17ae89e3cab4c78be50e062b03a9fffbbad1"},
	{"Mint(address,uint256,uint256)", "4c209b5fc8ad50758f13e2e1088ba56a560dff690a1c6fef26394f4c03821c4f"},
	{"Burn(address,uint256,uint256,address)", "dccd412f0b1252819cb1fd330b93224ca42612892bb3f4f789976e6d81936496"},
	{"Swap(address,uint256,uint256,uint256,uint256,address)", "d78ad95fa46c994b6551d0da85fc275fe613ce37657fb8d5e3d130840159d822"},
	{"Swap(address,address,int256,int256,uint160,uint128,int24)", "c42079f94a6350d7e6235f29174924f928cc2ac818eb64fed8004e115fbcca67"},
	{"OrderFulfilled(bytes32,address,address,address,(uint8,address,uint256,uint256)[],(uint8,address,uint256,uint256,address)[])", "9d9af8e38d66c62e2c12f0225249fd9d721c54b83f48d9352c97c6cacdcb6f31"},
}

func init() {
	vk.Register(&vk.Check{
		ID:        "C13",
		Level:     "exploration",
		Technique: "differential oracle (own canonical-signature printer and own Keccak-f[1600], 16 literal known answers) for Event.Signature/SignatureHash; log-matching monitor through Integration.Insert with a recording connection and per-log row attribution",
		Rule: "case 0: the 16 known-answer events, each with every number of indexed inputs 0..3 in a seeded layout, signature + hash + a log scenario. Other cases: 25 iterations of (a) a generated event (identifier names incl. ones containing 'tuple'; type trees to depth 4 with tuples, tuple arrays, nested tuples, T[k] for all k, T[]; 0..3 inputs of any type marked indexed) whose signature and hash are compared, and (b) a generated event (shapes C09 decodes correctly on this tree: k in {1..9,11}, no arrays of bytes) put through Integration.Insert in 1..3 blocks of 1..3 transactions with 1..6 logs each, drawn from: matching; same hash with each other topic count 1..5; empty topic list; one hash bit flipped; other event name; one input type changed; SHA3-256 instead of Keccak-256; hash truncated to 31 / extended to 33 bytes; hash in the last instead of the first topic. " +
			"A signature is (shape class of an input, indexed or not) for part 1 and (decoy kind, number of indexed inputs, data-empty) for part 2; trivial = a scenario without any matching log. A third of the directly built log scenarios leave the unselected indexed inputs unnamed; every other built-before-use case stores its integrations in shovel.integrations (as SaveIntegration does) and loads them with AllIntegrations. Logs of all-indexed events carry surplus data half of the time; a third of the directly built scenarios are the second construction from one declaration; indexed string/bytes inputs are selected one time in three.",
		Assumptions: []string{
			"non-anonymous events with at most 3 indexed inputs; 'same-named event with a different indexed layout' has the same signature hash by definition and is distinguishable only by its topic count, which is how decoys of that kind are built",
			"every scenario selects at least one event input (an integration without selected inputs is indexed per transaction, not per log)",
			"only the iff is judged here: rows > 0 for matching logs, rows == 0 for all others; cell values and row counts are C09/C11's subject, which is why part 2 avoids the shapes C09 reports as mis-decoded",
			"a matching log carries well-formed data for the non-indexed inputs (empty data only when all inputs are indexed)",
			"an error returned by Insert for a block that holds decoys counts as 'no rows from the matching logs of that block'",
		},
		NCases: func(tier string) int {
			if tier == "thorough" {
				return 1 + 5000 + 1000
			}
			return 1 + 160 + 64
		},
		Run:              c13Run,
		CrashIsViolation: true,
		CaseTimeoutS:     300,
		Exhaustive:       func(string) bool { return false },
		MinObs: func(tier string) map[string]int64 {
			m := map[string]int64{
				"signatures_compared": 7000, "hashes_compared": 7000, "signatures_with_tuple_array": 400, "signatures_with_nested_tuple": 400,
				"inserts": 3000, "logs_matching": 8000, "rows_from_matching_logs": 8000, "logs_decoy": 20000,
				"decoy_topic_count": 5000, "decoy_empty_topics": 1500, "decoy_bit_flip": 1500, "decoy_other_name": 1000, "decoy_sha3": 1000,
				"scenarios_all_indexed_empty_data": 100,
			}
			if tier == "thorough" {
				for k, v := range m {
					m[k] = v * 25
				}
			}
			m["kat_vectors"] = 16
			return m
		},
	})
}

// ---- parsing canonical signatures (for the known-answer vectors)

func c13SplitTop(s string) []string {
	var parts []string
	depth, start := 0, 0
	for i, ch := range s {
		switch ch {
		case '(':
			depth++
		case ')':
			depth--
		case ',':
			if depth == 0 {
				parts = append(parts, s[start:i])
				start = i + 1
			}
		}
	}
	if len(s) > 0 {
		parts = append(parts, s[start:])
	}
	return parts
}

func c13ParseType(s string) (refmodel.Type, error) {
	if strings.HasSuffix(s, "]") {
		i := strings.LastIndex(s, "[")
		if i < 0 {
			return refmodel.Type{}, fmt.Errorf("bad array type %q", s)
		}
		e, err := c13ParseType(s[:i])
		if err != nil {
			return e, err
		}
		if n := s[i+1 : len(s)-1]; n != "" {
			k, err := strconv.Atoi(n)
			if err != nil {
				return e, err
			}
			return refmodel.FixedOf(k, e), nil
		}
		return refmodel.ArrayOf(e), nil
	}
	if strings.HasPrefix(s, "(") && strings.HasSuffix(s, ")") {
		var fs []refmodel.Field
		for i, p := range c13SplitTop(s[1 : len(s)-1]) {
			t, err := c13ParseType(p)
			if err != nil {
				return t, err
			}
			fs = append(fs, refmodel.Field{Name: "m" + strconv.Itoa(i), Type: t})
		}
		return refmodel.TupleOf(fs...), nil
	}
	num := func(prefix string) (int, bool) {
		n, err := strconv.Atoi(strings.TrimPrefix(s, prefix))
		return n, err == nil && strings.HasPrefix(s, prefix)
	}
	switch {
	case s == "address":
		return refmodel.Address(), nil
	case s == "bool":
		return refmodel.Bool(), nil
	case s == "bytes":
		return refmodel.Bytes(), nil
	case s == "string":
		return refmodel.String(), nil
	}
	if n, ok := num("uint"); ok {
		return refmodel.Uint(n), nil
	}
	if n, ok := num("int"); ok {
		return refmodel.Int(n), nil
	}
	if n, ok := num("bytes"); ok {
		return refmodel.BytesN(n), nil
	}
	return refmodel.Type{}, fmt.Errorf("unknown type %q", s)
}

func c13ParseSig(sig string) (string, []refmodel.Field, error) {
	i := strings.Index(sig, "(")
	if i < 0 || !strings.HasSuffix(sig, ")") {
		return "", nil, fmt.Errorf("bad signature %q", sig)
	}
	var fs []refmodel.Field
	for j, p := range c13SplitTop(sig[i+1 : len(sig)-1]) {
		t, err := c13ParseType(p)
		if err != nil {
			return "", nil, err
		}
		fs = append(fs, refmodel.Field{Name: "a" + strconv.Itoa(j), Type: t})
	}
	return sig[:i], fs, nil
}

// ---- part 1

func c13HasTupleArray(t refmodel.Type) (tupArr, nested bool) {
	var walk func(t refmodel.Type, inTuple bool)
	walk = func(t refmodel.Type, inTuple bool) {
		if t.IsArray() && t.Base().Kind == refmodel.KTuple {
			tupArr = true
		}
		b := t.Base()
		if b.Kind == refmodel.KTuple {
			if inTuple {
				nested = true
			}
			for _, f := range b.Fields {
				walk(f.Type, true)
			}
		}
	}
	walk(t, false)
	return
}

// c13Signature compares signature and hash of one declaration; literal is the
// known-answer hash or "".
func c13Signature(c *vk.Case, name string, fields []refmodel.Field, literal string) bool {
	wantSig := refmodel.EventSignature(name, fields)
	wantHash := refmodel.Keccak256([]byte(wantSig))
	var (
		ev      dig.Event
		gotSig  string
		gotHash []byte
		perIn   []string
	)
	p := func() (p *panicInfo) {
		defer func() {
			if r := recover(); r != nil {
				p = capturePanic(r)
			}
		}()
		ev = refmodel.ToDigEvent(name, fields)
		gotSig = ev.Signature()
		gotHash = ev.SignatureHash()
		for _, in := range ev.Inputs {
			perIn = append(perIn, in.Signature())
		}
		return nil
	}()
	det := map[string]any{"declaration": name + refmodel.Describe(fields), "want_signature": wantSig, "got_signature": gotSig,
		"want_hash": hex.EncodeToString(wantHash), "got_hash": hex.EncodeToString(gotHash)}
	if p != nil {
		det["panic"] = p
		c.Violate(p.key()+":signature", det, "Event.Signature/SignatureHash panicked for %s: %s", wantSig, p.Val)
		return false
	}
	c.Obs("signatures_compared", 1)
	for _, f := range fields {
		ta, nt := c13HasTupleArray(f.Type)
		c.Obs("signatures_with_tuple_array", boolN(ta))
		c.Obs("signatures_with_nested_tuple", boolN(nt))
		c.SetSig("sig:%s:indexed=%v", gen.Chain(f.Type), f.Indexed)
	}
	ok := true
	if gotSig != wantSig {
		ok = false
		class := "assembly"
		for i, f := range fields {
			if i < len(perIn) && perIn[i] != f.Type.Canonical() {
				class = gen.Chain(f.Type) // array levels over S|bytes|string|Ts|Td
				det["input"], det["input_got"], det["input_want"] = f.Name, perIn[i], f.Type.Canonical()
				break
			}
		}
		c.Violate("signature:"+class, det, "Event.Signature() = %q, want %q", gotSig, wantSig)
	} else {
		c.Obs("hashes_compared", 1)
		if !bytes.Equal(gotHash, wantHash) {
			ok = false
			c.Violate("hash-mismatch", det, "SignatureHash(%s) = %x, want Keccak-256 %x", wantSig, gotHash, wantHash)
		}
	}
	if literal != "" {
		c.Obs("kat_vectors", 1)
		if hex.EncodeToString(gotHash) != literal {
			ok = false
			det["known_answer"] = name
			c.Violate("hash-mismatch:known-answer", det, "SignatureHash(%s) = %x, want the published topic0 %s", wantSig, gotHash, literal)
		}
		if hex.EncodeToString(wantHash) != literal {
			c.Inconclusive("reference Keccak-256 disagrees with the literal for %s", wantSig)
		}
	}
	return ok
}

// ---- part 2

type c13Log struct {
	kind     string
	matching bool
	idx      int
}

// c13MarkIndexed marks n random inputs as indexed (any type).
func c13MarkIndexed(r *vk.RNG, fields []refmodel.Field, n int) {
	order := make([]int, len(fields))
	for i := range order {
		order[i] = i
	}
	vk.Shuffle(r, order)
	for i := 0; i < n && i < len(order); i++ {
		fields[order[i]].Indexed = true
	}
}

func isStaticElementary(t refmodel.Type) bool { return t.IsElementary() && !t.IsDynamic() }

// c13Prepare finishes a declaration for part 2: selections, at least one
// selected input, data non-empty unless all inputs are indexed.
func c13Prepare(r *vk.RNG, fields []refmodel.Field) []refmodel.Field {
	fields = gen.Select(r, fields, r.Range(1, 4), 4) // never touches indexed inputs
	for i := range fields {
		if fields[i].Indexed && isStaticElementary(fields[i].Type) && r.Chance(1, 2) {
			fields[i].Column = "ci" + strconv.Itoa(i)
		}
		if k := fields[i].Type.Kind; fields[i].Indexed && (k == refmodel.KString || k == refmodel.KBytes) && r.Chance(1, 3) {
			// an indexed string/bytes input appears in the log as the 32-byte hash of its value; selecting it stores
			// that topic (what is stored is C11's subject, here only whether the log counts)
			fields[i].Column = "ci" + strconv.Itoa(i)
		}
	}
	any := false
	for _, f := range fields {
		if f.Column != "" || (!f.Indexed && refmodel.HasSelection(f)) {
			any = true
		}
	}
	if !any {
		// e.g. all inputs indexed and composite: add a selected plain input
		fields = append(fields, refmodel.Field{Name: "extra", Type: refmodel.Uint(256), Column: "cextra"})
	}
	return fields
}

func c13Scenario(c *vk.Case, name string, fields []refmodel.Field) {
	r := c.R
	// half of the scenarios build the integration the way the service does: configuration JSON -> config.ValidateFix ->
	// shovel.NewDestination (whatever validation does to the event declaration is part of what is judged)
	viaConfig := r.Bool()
	if !viaConfig && r.Chance(1, 3) {
		// an ABI that leaves the indexed inputs nobody selects unnamed (legal Solidity; the configuration file's
		// validation refuses two inputs of one name, an integration submitted through the dashboard is not checked
		// for it): names take no part in the signature, and every indexed input still counts as a topic
		fields = append([]refmodel.Field(nil), fields...)
		n := 0
		for i := range fields {
			if fields[i].Indexed && fields[i].Column == "" {
				fields[i].Name = ""
				n++
			}
		}
		if n >= 2 {
			c.Obs("scenarios_with_several_unnamed_indexed_inputs", 1)
		}
	}
	d := newABIDecl(name, fields)
	nIdx := 0
	for _, f := range fields {
		if f.Indexed {
			nIdx++
		}
	}
	nonIdx, _ := refmodel.NonIndexed(fields, nil)
	emptyData := len(nonIdx) == 0
	if emptyData {
		c.Obs("scenarios_all_indexed_empty_data", 1)
	}
	var (
		ig  dig.Integration
		err error
		p   *panicInfo
	)
	if !viaConfig && r.Chance(1, 3) {
		// the integration under test is not the first one built from this declaration (a second source, a restart of
		// the manager, a further concurrency slot): building one must leave the declaration as it was
		newIntegration(d, []dig.BlockData{{Name: "log_idx", Column: "log_idx"}})
		c.Obs("scenarios_built_a_second_time_from_one_declaration", 1)
	}
	if viaConfig {
		ig, err, p = newIntegrationViaConfig(d, []dig.BlockData{{Name: "log_idx", Column: "log_idx"}})
		c.Obs("scenarios_built_via_configuration", 1)
	} else {
		ig, err, p = newIntegration(d, []dig.BlockData{{Name: "log_idx", Column: "log_idx"}})
	}
	if p != nil || err != nil {
		c.Violate("dig.New-failed", map[string]any{"declaration": d.describe(), "panic": p, "err": fmt.Sprint(err), "via_configuration": viaConfig}, "building the integration failed for %s: %v", d.describe(), err)
		return
	}
	sigText := refmodel.EventSignature(name, fields)
	hash := refmodel.Keccak256([]byte(sigText))
	mkTopics := func(h []byte, n int) []eth.Bytes {
		ts := []eth.Bytes{eth.Bytes(h)}
		for i := 0; i < n; i++ {
			ts = append(ts, eth.Bytes(r.Bytes(32)))
		}
		return ts
	}
	goodData := func() []byte {
		if emptyData && r.Bool() {
			// every input is indexed: whatever the data holds, none of it is declared; the log is still one of the event
			c.Obs("all_indexed_logs_with_surplus_data", 1)
			return exactCopy(r.Bytes(r.Range(1, 70)))
		}
		return exactCopy(refmodel.EncodeTuple(fields, gen.Values(r, fields, gen.ABIOpts{DynLen: 3})))
	}
	kinds := []string{"matching", "matching", "matching", "topic-count", "topic-count", "empty-topics", "bit-flip", "other-name", "other-type", "sha3-256", "short-hash", "long-hash", "hash-last"}
	var (
		logs   []c13Log
		next   int
		nMatch int
	)
	nb := r.Range(1, 3)
	blocks := make([]eth.Block, nb)
	var layout []string
	for b := range blocks {
		blocks[b].Header.Number = eth.Uint64(1000 + b)
		blocks[b].Header.Hash = eth.Bytes(r.Bytes(32))
		blocks[b].Txs = make([]eth.Tx, r.Range(1, 3))
		for t := range blocks[b].Txs {
			tx := &blocks[b].Txs[t]
			tx.Idx = eth.Uint64(t)
			tx.PrecompHash = eth.Bytes(r.Bytes(32))
			nl := r.Range(1, 6)
			for l := 0; l < nl; l++ {
				kind := vk.Pick(r, kinds)
				lg := eth.Log{Idx: eth.Uint64(next), Address: eth.Bytes(r.Bytes(20)), Data: eth.Bytes(goodData())}
				info := c13Log{kind: kind, idx: next}
				switch kind {
				case "matching":
					info.matching = true
					nMatch++
					lg.Topics = mkTopics(hash, nIdx)
				case "topic-count":
					n := r.Intn(5) // 0..4 further topics, i.e. 1..5 topics
					if n == nIdx {
						n = (n + 1 + r.Intn(4)) % 5
					}
					lg.Topics = mkTopics(hash, n)
					info.kind = fmt.Sprintf("topic-count-delta=%+d", n-nIdx)
					c.Obs("decoy_topic_count", 1)
				case "empty-topics":
					if r.Bool() {
						lg.Topics = []eth.Bytes{}
					}
					c.Obs("decoy_empty_topics", 1)
				case "bit-flip":
					h := append([]byte(nil), hash...)
					h[r.Intn(32)] ^= 1 << uint(r.Intn(8))
					lg.Topics = mkTopics(h, nIdx)
					c.Obs("decoy_bit_flip", 1)
				case "other-name":
					lg.Topics = mkTopics(refmodel.Keccak256([]byte(refmodel.EventSignature(name+"X", fields))), nIdx)
					c.Obs("decoy_other_name", 1)
				case "other-type":
					alt := gen.CloneFields(fields)
					if alt[0].Type.Kind == refmodel.KBool {
						alt[0].Type = refmodel.Uint(8)
					} else {
						alt[0].Type = refmodel.Bool()
					}
					lg.Topics = mkTopics(refmodel.Keccak256([]byte(refmodel.EventSignature(name, alt))), nIdx)
				case "sha3-256":
					h := sha3.Sum256([]byte(sigText))
					lg.Topics = mkTopics(h[:], nIdx)
					c.Obs("decoy_sha3", 1)
				case "short-hash":
					lg.Topics = mkTopics(hash[:31], nIdx)
				case "long-hash":
					lg.Topics = mkTopics(append(append([]byte(nil), hash...), 0), nIdx)
				case "hash-last":
					ts := mkTopics(r.Bytes(32), nIdx)
					if nIdx == 0 {
						ts = append(ts, eth.Bytes(hash)) // also a wrong count
					} else {
						ts[len(ts)-1] = eth.Bytes(hash)
					}
					lg.Topics = ts
				}
				if !info.matching && r.Chance(1, 6) {
					lg.Data = eth.Bytes(r.Bytes(r.Intn(70))) // garbage or empty data on a decoy must not matter
				}
				if info.matching {
					c.Obs("logs_matching", 1)
				} else {
					c.Obs("logs_decoy", 1)
				}
				c.SetSig("log:%s:indexed=%d:empty-data=%v", info.kind, nIdx, emptyData)
				layout = append(layout, fmt.Sprintf("b%d/t%d/log%d:%s(topics=%d,data=%dB)", b, t, next, info.kind, len(lg.Topics), len(lg.Data)))
				tx.Logs = append(tx.Logs, lg)
				logs = append(logs, info)
				next++
			}
		}
	}
	rc := &recConn{}
	_, ierr, pn := safeInsert(ig, rc, blocks)
	c.Obs("inserts", 1)
	det := map[string]any{"declaration": d.describe(), "signature": sigText, "topic0": hex.EncodeToString(hash), "indexed_inputs": nIdx, "logs": layout}
	if pn != nil {
		det["panic"] = pn
		c.Violate(pn.key(), det, "Integration.Insert panicked on a block mixing matching logs and decoys for %s: %s", sigText, pn.Val)
		return
	}
	if ierr != nil {
		det["err"] = ierr.Error()
		if nMatch > 0 {
			c.Violate("no-rows-from-matching:insert-error", det, "Integration.Insert failed (%v) on blocks holding %d matching logs of %s", ierr, nMatch, sigText)
		} else {
			c.Violate("insert-error-on-decoys", det, "Integration.Insert failed (%v) on blocks holding only non-matching logs", ierr)
		}
		return
	}
	// attribute rows to logs
	perLog := map[int]int{}
	col := -1
	for i, n := range rc.cols {
		if n == "log_idx" {
			col = i
		}
	}
	if col < 0 && len(rc.rows) > 0 {
		c.Inconclusive("harness: recording connection saw no log_idx column (%v)", rc.cols)
		return
	}
	for _, row := range rc.rows {
		li, ok := row[col].(eth.Uint64)
		if !ok {
			c.Inconclusive("harness: log_idx cell is %T", row[col])
			return
		}
		perLog[int(li)]++
	}
	for _, l := range logs {
		n := perLog[l.idx]
		switch {
		case l.matching && n == 0:
			det["log"] = l.idx
			c.Violate("no-rows-from-matching", det, "matching log %d of %s (%d indexed inputs) produced no row", l.idx, sigText, nIdx)
		case l.matching:
			c.Obs("rows_from_matching_logs", int64(n))
		case n > 0:
			det["log"], det["rows"] = l.idx, n
			c.Violate("rows-from-nonmatching:"+l.kind, det, "non-matching log %d (%s) produced %d rows for %s (%d indexed inputs)", l.idx, l.kind, n, sigText, nIdx)
		}
	}
	if nMatch > 0 {
		c.SetSig("scenario:matching+decoys:indexed=%d", nIdx)
	}
}

func c13Run(c *vk.Case) {
	if err := refmodel.SelfTest(); err != nil {
		c.Inconclusive("reference model self-test failed: %v", err)
		return
	}
	if base := map[string]int{"thorough": 1 + 5000}[c.Tier]; (c.Tier == "thorough" && c.Index >= base) || (c.Tier != "thorough" && c.Index >= 1+160) {
		c13Multi(c)
		return
	}
	r := c.R
	var evals int64
	if c.Index == 0 {
		for _, k := range c13KAT {
			name, fs, err := c13ParseSig(k.sig)
			if err != nil || refmodel.EventSignature(name, fs) != k.sig {
				c.Inconclusive("harness: cannot parse known-answer signature %q: %v", k.sig, err)
				return
			}
			for nIdx := 0; nIdx <= 3; nIdx++ {
				f := gen.CloneFields(fs)
				c13MarkIndexed(r, f, nIdx)
				lit := ""
				if nIdx == 0 {
					lit = k.hash
				}
				if !c13Signature(c, name, f, lit) {
					continue
				}
				evals++
				// part 2 only for shapes inside its domain (no fixed arrays >= 10, no arrays of bytes here anyway)
				c13Scenario(c, name, c13Prepare(r, f))
			}
		}
		c.Sample(map[string]any{"family": "known-answer", "vectors": len(c13KAT), "example": c13KAT[len(c13KAT)-1]})
		c.Evals(evals + c.Res.Obs["logs_matching"] + c.Res.Obs["logs_decoy"])
		return
	}
	for it := 0; it < 25; it++ {
		// (a) signature of an unrestricted declaration
		o := gen.ABIOpts{MaxDepth: r.Range(1, 4), MaxInputs: r.Range(1, 6)}
		fa := gen.Inputs(r, o)
		c13MarkIndexed(r, fa, r.Intn(4))
		c13Signature(c, gen.EventName(r), fa, "")
		evals++
		// (b) matching through Insert
		ob := gen.ABIOpts{MaxDepth: r.Range(0, 3), MaxInputs: r.Range(1, 5), MaxLeaves: 60, DynLen: 3, Ks: []int{1, 2, 3, 4, 5, 6, 7, 8, 9, 10, 11, 12, 16}}
		fb := gen.Inputs(r, ob)
		nIdx := r.Intn(4)
		if r.Chance(1, 12) {
			// all inputs indexed: the log carries no data
			if len(fb) > 3 {
				fb = fb[:3]
			}
			for i := range fb {
				fb[i].Type = gen.Elementary(r)
				for fb[i].Type.IsDynamic() {
					fb[i].Type = gen.Elementary(r)
				}
			}
			nIdx = len(fb)
		} else if nIdx >= len(fb) {
			nIdx = len(fb) - 1
		}
		c13MarkIndexed(r, fb, nIdx)
		fb = c13Prepare(r, fb)
		name := gen.EventName(r)
		if c13Signature(c, name, fb, "") {
			c13Scenario(c, name, fb)
		}
		evals++
		if it == 0 {
			c.Sample(map[string]any{"declaration": name + refmodel.Describe(fb), "signature": refmodel.EventSignature(name, fb),
				"topic0": hex.EncodeToString(refmodel.Keccak256([]byte(refmodel.EventSignature(name, fb))))})
		}
	}
	c.Evals(evals + c.Res.Obs["logs_matching"] + c.Res.Obs["logs_decoy"])
}

// newIntegrationViaConfig builds the integration of a declaration through the
// configuration path of the service.
func newIntegrationViaConfig(d *abiDecl, bd []dig.BlockData) (ig dig.Integration, err error, p *panicInfo) {
	defer func() {
		if r := recover(); r != nil {
			p = capturePanic(r)
		}
	}()
	direct, err, p0 := newIntegration(d, bd)
	if err != nil || p0 != nil {
		return direct, err, p0
	}
	raw, err := json.Marshal(map[string]any{
		"pg_url":      "postgres://unused",
		"eth_sources": []any{map[string]any{"name": "src", "chain_id": 1, "url": "http://127.0.0.1:9"}},
		"integrations": []any{map[string]any{
			"name": "ig_abi", "enabled": true, "sources": []any{map[string]any{"name": "src"}},
			"table": direct.Table, "block": bd, "event": d.ev,
		}},
	})
	if err != nil {
		return ig, fmt.Errorf("encoding configuration: %w", err), nil
	}
	var root config.Root
	if err := json.Unmarshal(raw, &root); err != nil {
		return ig, fmt.Errorf("decoding configuration: %w", err), nil
	}
	if err := config.ValidateFix(&root); err != nil {
		return ig, fmt.Errorf("validation: %w", err), nil
	}
	dest, err := shovel.NewDestination(root.Integrations[0])
	if err != nil {
		return ig, err, nil
	}
	got, ok := dest.(dig.Integration)
	if !ok {
		return ig, fmt.Errorf("destination is %T", dest), nil
	}
	return got, nil, nil
}
