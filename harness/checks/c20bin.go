package checks

import (
	"bytes"
	"context"
	"encoding/json"
	"fmt"
	"net"
	"net/http"
	"net/url"
	"os"
	"os/exec"
	"path/filepath"
	"strings"
	"sync"
	"time"

	"github.com/indexsupply/shovel/shovel"
	"github.com/indexsupply/shovel/wpg"

	"verif/harness/fakepg"
	"verif/harness/gen"
	"verif/harness/simnode"
	"verif/harness/vk"
)

// C20, process level: "a reference to an unknown source is a startup error rather
// than a silently missing task". The real cmd/shovel binary (built from /repo's
// working tree by run.sh) is started (a) without a configuration file against a
// database that holds an integration naming a source defined nowhere, (b) with a
// configuration file whose integration names such a source. Once the process has
// printed its start-up error it must terminate with a non-zero status; a process
// that keeps serving without the task is the silent failure the statement rules out.

type lockedBuf struct {
	mu sync.Mutex
	b  bytes.Buffer
}

func (l *lockedBuf) Write(p []byte) (int, error) {
	l.mu.Lock()
	defer l.mu.Unlock()
	return l.b.Write(p)
}

func (l *lockedBuf) String() string {
	l.mu.Lock()
	defer l.mu.Unlock()
	return l.b.String()
}

func c20Binary(c *vk.Case) {
	bin := shovelBinary()
	if _, err := os.Stat(bin); err != nil {
		c.Inconclusive("shovel binary not built at %s: %v", bin, err)
		return
	}
	for _, variant := range []string{"database-only", "file"} {
		if len(c.Res.Violations) > 0 {
			return
		}
		c20BinaryOne(c, bin, variant)
	}
	if len(c.Res.Violations) == 0 {
		c20BinaryShadow(c, bin)
	}
	if len(c.Res.Violations) == 0 {
		c20BinaryStale(c, bin)
	}
	c.SetSig("binary:unknown-source")
}

// c20BinaryShadow: the file holds integration ig-x switched off, the database holds an enabled integration of the same
// name; the file takes precedence, so the process runs no task for ig-x (its control integration ig-y runs).
func c20BinaryShadow(c *vk.Case, bin string) {
	ctx := context.Background()
	pg, err := fakepg.New()
	if err != nil {
		c.Inconclusive("fakepg: %v", err)
		return
	}
	defer pg.Close()
	pg.SetSchemaScript(shovel.Schema)
	pg.InstallSchema()
	chain := simnode.NewChain(nextChainID(), gen.Content(gen.ChainOpts{Seed: c.R.U64(), MinTxs: 1, MaxTxs: 1}))
	chain.Grow(6)
	node := simnode.Global().NewNode(chain)
	defer node.Retire()
	mk := func(name, table string, enabled bool) map[string]any {
		return map[string]any{
			"name": name, "enabled": enabled, "sources": []any{map[string]any{"name": "src-a", "start": 1, "stop": 3}},
			"table": map[string]any{"name": table, "columns": []any{map[string]any{"name": "tx_hash", "type": "bytea"}}},
			"block": []any{map[string]any{"name": "tx_hash", "column": "tx_hash"}},
		}
	}
	pool, err := wpg.NewPool(ctx, pg.URL())
	if err != nil {
		c.Inconclusive("pool: %v", err)
		return
	}
	stored := mk("ig-x", "t_x", true)
	// what ValidateFix adds for a file integration, the dashboard's script adds for a stored one
	for _, n := range []string{"ig_name", "src_name", "block_num", "tx_idx"} {
		ty := map[string]string{"ig_name": "text", "src_name": "text", "block_num": "numeric", "tx_idx": "int"}[n]
		stored["table"].(map[string]any)["columns"] = append(stored["table"].(map[string]any)["columns"].([]any), map[string]any{"name": n, "type": ty})
		stored["block"] = append(stored["block"].([]any), map[string]any{"name": n, "column": n})
	}
	cj, _ := json.Marshal(stored)
	_, err = pool.Exec(ctx, `insert into shovel.integrations(name, conf) values ($1, $2)`, "ig-x", cj)
	pool.Close()
	if err != nil {
		c.Inconclusive("storing the integration: %v", err)
		return
	}
	dir, err := os.MkdirTemp("", "vc20bin")
	if err != nil {
		c.Inconclusive("tmp: %v", err)
		return
	}
	defer os.RemoveAll(dir)
	conf := map[string]any{
		"pg_url":       pg.URL(),
		"eth_sources":  []any{map[string]any{"name": "src-a", "chain_id": 1, "url": node.URL(""), "poll_duration": "50ms"}},
		"integrations": []any{mk("ig-x", "t_x", false), mk("ig-y", "t_y", true)},
	}
	cfj, _ := json.Marshal(conf)
	cfile := filepath.Join(dir, "config.json")
	os.WriteFile(cfile, cfj, 0o644)
	ln, err := net.Listen("tcp", "127.0.0.1:0")
	if err != nil {
		c.Inconclusive("listen: %v", err)
		return
	}
	addr := ln.Addr().String()
	ln.Close()
	out := &lockedBuf{}
	cmd := exec.Command(bin, "-config", cfile, "-l", addr)
	cmd.Dir = dir
	cmd.Stdout, cmd.Stderr = out, out
	if err := cmd.Start(); err != nil {
		c.Inconclusive("starting shovel: %v", err)
		return
	}
	exited := make(chan error, 1)
	go func() { exited <- cmd.Wait() }()
	defer func() {
		cmd.Process.Kill()
		<-exited
	}()
	c.Obs("binary_shadow_runs", 1)
	c.Evals(1)
	// the control integration finishes its range (stop 3), then the database goes quiet
	sawY, sawX := false, false
	var xStmt string
	scan := func() {
		for _, op := range pg.OpLog() {
			if strings.Contains(op.SQL, "shovel-task-src-a-ig-y") {
				sawY = true
			}
			if strings.Contains(op.SQL, "shovel-task-src-a-ig-x") {
				sawX, xStmt = true, op.SQL
			}
		}
	}
	for i := 0; i < 1500; i++ {
		select {
		case err := <-exited:
			exited <- err
			c.Inconclusive("shovel exited: %v: %s (unsupported: %v)", err, tail(out.String(), 600), pg.Unsupported())
			return
		default:
		}
		scan()
		if sawY {
			break
		}
		time.Sleep(20 * time.Millisecond)
	}
	if !sawY {
		c.Inconclusive("the control integration's task never appeared: %s", tail(out.String(), 600))
		return
	}
	time.Sleep(400 * time.Millisecond) // tasks of one start-up are created back to back; the watchdog above did the waiting
	scan()
	if us := pg.Unsupported(); len(us) > 0 {
		c.Inconclusive("fakepg contract left by the real binary: %v", us)
		return
	}
	if sawX {
		c.Violate("binary:file-disabled-integration-runs-from-database", map[string]any{"statement": firstLines(xStmt, 2), "file": string(cfj), "stored": string(cj)},
			"the file switches integration ig-x off; the process created a task for the stored copy of the same name: %s", firstLines(xStmt, 1))
		return
	}
	c.Obs("binary_shadow_held", 1)
}

func c20BinaryOne(c *vk.Case, bin, variant string) {
	ctx := context.Background()
	pg, err := fakepg.New()
	if err != nil {
		c.Inconclusive("fakepg: %v", err)
		return
	}
	defer pg.Close()
	pg.SetSchemaScript(shovel.Schema)
	pg.InstallSchema()
	ig := map[string]any{
		"name": "ig-x", "enabled": true, "sources": []any{map[string]any{"name": "src-nowhere", "start": 1, "stop": 3}},
		"table": map[string]any{"name": "t_x", "columns": []any{map[string]any{"name": "tx_hash", "type": "bytea"}}},
		"block": []any{map[string]any{"name": "tx_hash", "column": "tx_hash"}},
	}
	dir, err := os.MkdirTemp("", "vc20bin")
	if err != nil {
		c.Inconclusive("tmp: %v", err)
		return
	}
	defer os.RemoveAll(dir)
	ln, err := net.Listen("tcp", "127.0.0.1:0")
	if err != nil {
		c.Inconclusive("listen: %v", err)
		return
	}
	addr := ln.Addr().String()
	ln.Close()
	args := []string{"-l", addr}
	env := os.Environ()
	switch variant {
	case "database-only":
		pool, err := wpg.NewPool(ctx, pg.URL())
		if err != nil {
			c.Inconclusive("pool: %v", err)
			return
		}
		cj, _ := json.Marshal(ig)
		_, err = pool.Exec(ctx, `insert into shovel.integrations(name, conf) values ($1, $2)`, "ig-x", cj)
		pool.Close()
		if err != nil {
			c.Inconclusive("storing the integration: %v", err)
			return
		}
		env = append(env, "DATABASE_URL="+pg.URL())
	case "file":
		conf := map[string]any{
			"pg_url":       pg.URL(),
			"eth_sources":  []any{map[string]any{"name": "src-a", "chain_id": 1, "url": "http://127.0.0.1:9"}},
			"integrations": []any{ig},
		}
		cj, _ := json.Marshal(conf)
		cfile := filepath.Join(dir, "config.json")
		os.WriteFile(cfile, cj, 0o644)
		args = append([]string{"-config", cfile}, args...)
	}
	out := &lockedBuf{}
	cmd := exec.Command(bin, args...)
	cmd.Dir, cmd.Env = dir, env
	cmd.Stdout, cmd.Stderr = out, out
	if err := cmd.Start(); err != nil {
		c.Inconclusive("starting shovel: %v", err)
		return
	}
	exited := make(chan error, 1)
	go func() { exited <- cmd.Wait() }()
	c.Obs("binary_unknown_source_runs", 1)
	c.Evals(1)
	detail := func() map[string]any {
		return map[string]any{"variant": variant, "integration": ig, "output": tail(out.String(), 1500), "unsupported_by_fakepg": pg.Unsupported()}
	}
	reported := time.Time{}
	watchdog := time.After(90 * time.Second)
	tick := time.NewTicker(20 * time.Millisecond)
	defer tick.Stop()
	for {
		select {
		case err := <-exited:
			if us := pg.Unsupported(); len(us) > 0 {
				c.Inconclusive("fakepg contract left by the real binary: %v", us)
				return
			}
			if !strings.Contains(out.String(), "src-nowhere") && !strings.Contains(out.String(), "finding source") {
				c.Inconclusive("shovel (%s) terminated without mentioning the unknown source: %s", variant, tail(out.String(), 400))
				return
			}
			if err == nil {
				c.Violate("binary:unknown-source:exit-status-zero:"+variant, detail(), "shovel (%s) with an integration naming a source defined nowhere terminated with status 0", variant)
			} else {
				c.Obs("binary_unknown_source_exits_nonzero", 1)
				var last []string
				for _, st := range pg.TakeStmts() {
					last = append(last, firstLines(st.SQL, 2))
				}
				c.Sample(map[string]any{"binary_unknown_source": variant, "exit": err.Error(), "output_tail": tail(out.String(), 400), "last_statements": lastN(last, 4)})
			}
			return
		case <-tick.C:
			if reported.IsZero() && strings.Contains(out.String(), "finding source") {
				reported = time.Now()
			}
			// the exit follows the message immediately in a process that treats it as fatal; 10 s is a watchdog, not a budget
			if !reported.IsZero() && time.Since(reported) > 10*time.Second {
				cmd.Process.Kill()
				<-exited
				c.Violate("binary:unknown-source:process-keeps-running:"+variant, detail(),
					"shovel (%s) reported the unknown source (%q) and is still running 10 s later: it serves without the task", variant, firstLines(tail(out.String(), 300), 2))
				return
			}
		case <-watchdog:
			cmd.Process.Kill()
			<-exited
			c.Inconclusive("shovel (%s) neither reported the unknown source nor terminated within 90 s: %s", variant, tail(out.String(), 600))
			return
		}
	}
}

var _ = fmt.Sprint

// c20BinaryStale: an integration stored in the database runs when the process starts; its row is then removed and the
// manager restarted (a source is added through the dashboard of the running process). The generation that comes up
// runs the control integration of the file and no task for the removed one: what the database held at start-up is not
// part of the file.
func c20BinaryStale(c *vk.Case, bin string) {
	ctx := context.Background()
	pg, err := fakepg.New()
	if err != nil {
		c.Inconclusive("fakepg: %v", err)
		return
	}
	defer pg.Close()
	pg.SetSchemaScript(shovel.Schema)
	pg.InstallSchema()
	chain := simnode.NewChain(nextChainID(), gen.Content(gen.ChainOpts{Seed: c.R.U64(), MinTxs: 1, MaxTxs: 1}))
	chain.Grow(6)
	node := simnode.Global().NewNode(chain)
	defer node.Retire()
	mk := func(name, table string, enabled bool) map[string]any {
		return map[string]any{
			"name": name, "enabled": enabled, "sources": []any{map[string]any{"name": "src-a", "start": 1, "stop": 3}},
			"table": map[string]any{"name": table, "columns": []any{map[string]any{"name": "tx_hash", "type": "bytea"}}},
			"block": []any{map[string]any{"name": "tx_hash", "column": "tx_hash"}},
		}
	}
	pool, err := wpg.NewPool(ctx, pg.URL())
	if err != nil {
		c.Inconclusive("pool: %v", err)
		return
	}
	defer pool.Close()
	stored := mk("ig-s", "t_s", true)
	for _, n := range []string{"ig_name", "src_name", "block_num", "tx_idx"} {
		ty := map[string]string{"ig_name": "text", "src_name": "text", "block_num": "numeric", "tx_idx": "int"}[n]
		stored["table"].(map[string]any)["columns"] = append(stored["table"].(map[string]any)["columns"].([]any), map[string]any{"name": n, "type": ty})
		stored["block"] = append(stored["block"].([]any), map[string]any{"name": n, "column": n})
	}
	cj, _ := json.Marshal(stored)
	if _, err = pool.Exec(ctx, `insert into shovel.integrations(name, conf) values ($1, $2)`, "ig-s", cj); err != nil {
		c.Inconclusive("storing the integration: %v", err)
		return
	}
	dir, err := os.MkdirTemp("", "vc20bin")
	if err != nil {
		c.Inconclusive("tmp: %v", err)
		return
	}
	defer os.RemoveAll(dir)
	conf := map[string]any{
		"pg_url":      pg.URL(),
		"eth_sources": []any{map[string]any{"name": "src-a", "chain_id": 1, "url": node.URL(""), "poll_duration": "50ms"}},
		// ig-t (switched off) only makes the process create the table the stored integration writes to
		"integrations": []any{mk("ig-t", "t_s", false), mk("ig-y", "t_y", true)},
	}
	cfj, _ := json.Marshal(conf)
	cfile := filepath.Join(dir, "config.json")
	os.WriteFile(cfile, cfj, 0o644)
	ln, err := net.Listen("tcp", "127.0.0.1:0")
	if err != nil {
		c.Inconclusive("listen: %v", err)
		return
	}
	addr := ln.Addr().String()
	ln.Close()
	out := &lockedBuf{}
	cmd := exec.Command(bin, "-config", cfile, "-l", addr)
	cmd.Dir = dir
	cmd.Stdout, cmd.Stderr = out, out
	if err := cmd.Start(); err != nil {
		c.Inconclusive("starting shovel: %v", err)
		return
	}
	exited := make(chan error, 1)
	go func() { exited <- cmd.Wait() }()
	defer func() {
		cmd.Process.Kill()
		<-exited
	}()
	c.Obs("binary_stale_runs", 1)
	c.Evals(1)
	seen := func(name string) (n int, stmt string) {
		for _, op := range pg.OpLog() {
			if strings.Contains(op.SQL, "shovel-task-src-a-"+name) {
				n++
				stmt = op.SQL
			}
		}
		return
	}
	waitFor := func(name string) bool {
		for i := 0; i < 1500; i++ {
			select {
			case err := <-exited:
				exited <- err
				return false
			default:
			}
			if n, _ := seen(name); n > 0 {
				return true
			}
			time.Sleep(20 * time.Millisecond)
		}
		return false
	}
	if !waitFor("ig-y") || !waitFor("ig-s") {
		c.Inconclusive("the file's and the database's integration did not both get a task at start-up: %s (unsupported: %v)", tail(out.String(), 600), pg.Unsupported())
		return
	}
	// the stored integration goes away; a source added through the dashboard restarts the manager
	if _, err := pool.Exec(ctx, `delete from shovel.integrations where name = $1`, "ig-s"); err != nil {
		c.Inconclusive("removing the stored integration: %v", err)
		return
	}
	time.Sleep(300 * time.Millisecond) // both ranges are short (stop 3): let the first generation go quiet
	pg.ResetOps()
	form := url.Values{"chainID": {"77"}, "name": {"src-new"}, "ethURL": {node.URL("")}}
	hc := &http.Client{Timeout: 30 * time.Second, CheckRedirect: func(*http.Request, []*http.Request) error { return http.ErrUseLastResponse }}
	resp, err := hc.PostForm("http://"+addr+"/save-source", form)
	if err != nil {
		c.Inconclusive("POST /save-source: %v: %s", err, tail(out.String(), 400))
		return
	}
	resp.Body.Close()
	if resp.StatusCode != http.StatusSeeOther && resp.StatusCode != http.StatusOK {
		c.Inconclusive("POST /save-source answered %d: %s", resp.StatusCode, tail(out.String(), 400))
		return
	}
	if !waitFor("ig-y") {
		c.Inconclusive("the restarted manager created no task for the file's integration: %s", tail(out.String(), 600))
		return
	}
	time.Sleep(400 * time.Millisecond) // tasks of one generation are created back to back
	if us := pg.Unsupported(); len(us) > 0 {
		c.Inconclusive("fakepg contract left by the real binary: %v", us)
		return
	}
	if n, stmt := seen("ig-s"); n > 0 {
		c.Violate("binary:removed-stored-integration-runs-after-restart", map[string]any{"statement": firstLines(stmt, 2), "file": string(cfj), "stored_at_start_up": string(cj)},
			"integration ig-s was removed from shovel.integrations before the restart; the restarted manager created a task for it again: %s", firstLines(stmt, 1))
		return
	}
	c.Obs("binary_stale_held", 1)
}
